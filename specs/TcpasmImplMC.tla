---------------------------- MODULE TcpasmImplMC ----------------------------
(* Model-checking instances of TcpasmImpl.tla. *)
EXTENDS TcpasmImpl
CONSTANT Seed
WrapIsns == {M - 1 - k : k \in 0..(L + 1)}
MC_CfgsAll == [limit : {0, 1, 2, 3}, isn : {0} \cup WrapIsns]
\* quick: every limit with one seed-rotated ISN
IsnSeq == <<0>> \o [k \in 1..(L + 2) |-> M - k]
MC_CfgsQuick == {[limit |-> l, isn |-> IsnSeq[((l + Seed) % Len(IsnSeq)) + 1]] : l \in {0, 1, 2, 3}}
MC_CfgsThree == {[limit |-> l, isn |-> IsnSeq[((l + Seed) % Len(IsnSeq)) + 1]] : l \in {0, 1, 2}}
MC_CfgsWrap == [limit : {0, 2}, isn : WrapIsns]
MC_CfgsSkip == [limit : {0, 1, 2}, isn : {0}]
=============================================================================
