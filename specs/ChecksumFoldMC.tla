--------------------------- MODULE ChecksumFoldMC ---------------------------
(***************************************************************************)
(* gopacket.FoldChecksum as a state machine (loop / done), for Apalache:   *)
(*   apalache-mc check --length=4 --inv=FoldInv ChecksumFoldMC.tla         *)
(* c0 ranges over ALL 32-bit accumulators (symbolically).  FoldInv says    *)
(*   - when the loop has exited, the result is the RFC 1071 checksum       *)
(*     FoldRef(c0) of the accumulator;                                     *)
(*   - the loop body runs at most twice and the machine is done after 3    *)
(*     steps, so --length=4 covers every execution completely;             *)
(*   - no intermediate value leaves the uint32 range (the Go code computes *)
(*     in uint32; the transcription uses unbounded integers);              *)
(*   - the word-by-word reference OCAdd(hi16, lo16) used by TLC (whose     *)
(*     integers are 32-bit signed) equals the closed form NormOC(c0).      *)
(***************************************************************************)
EXTENDS ChecksumFold

VARIABLES
  \* @type: Int;
  c0,
  \* @type: Int;
  c,
  \* @type: Str;
  pc,
  \* @type: Int;
  out,
  \* @type: Int;
  iters,
  \* @type: Int;
  steps

Init ==
  /\ c0 \in Int
  /\ 0 <= c0
  /\ c0 <= 4294967295
  /\ c = c0
  /\ pc = "loop"
  /\ out = 0
  /\ iters = 0
  /\ steps = 0

Next ==
  /\ steps' = steps + 1
  /\ \/ /\ pc = "loop"
        /\ FoldCond(c)
        /\ c' = FoldBody(c)
        /\ iters' = iters + 1
        /\ UNCHANGED <<c0, pc, out>>
     \/ /\ pc = "loop"
        /\ ~FoldCond(c)
        /\ pc' = "done"
        /\ out' = 65535 - c          \* ^uint16(csum) with csum <= 0xffff
        /\ UNCHANGED <<c0, c, iters>>
     \/ /\ pc = "done"
        /\ UNCHANGED <<c0, c, pc, out, iters>>

FoldInv ==
  /\ (pc = "done" => out = FoldRef(c0))
  /\ iters <= 2
  /\ (iters = 2 => c <= 65535)
  /\ (steps >= 3 => pc = "done")
  /\ 0 <= c
  /\ c <= 4294967295
  /\ 0 <= out
  /\ out <= 65535
  /\ OCAdd(c0 \div 65536, c0 % 65536) = NormOC(c0)

\* deliberately false (result off by one for multiples of 0xffff): used by the self-test of the proof step
FoldInvBroken == pc = "done" => out = 65535 - (c0 % 65535)
=============================================================================
