--------------------------- MODULE PoolConcIndMC ---------------------------
(* X22IND (b): TLC cross-check - IndInv of PoolConcInd.tla holds in every reachable state of the C12 workloads *)
EXTENDS PoolConcMC, PoolConcInd
ASSUME ProgsOK
=============================================================================
