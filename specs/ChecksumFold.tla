---------------------------- MODULE ChecksumFold ----------------------------
(***************************************************************************)
(* One's-complement arithmetic of RFC 1071 on plain integers (C08).        *)
(* Pure operators only, written so that both TLC and Apalache accept them. *)
(*                                                                         *)
(* The one's-complement sum of 16-bit words w1..wn is the unique r in      *)
(* 0..65535 with r == w1+...+wn (mod 65535) and r = 0 iff every wi = 0     *)
(* (a non-zero sum congruent to 0 is represented as 0xffff, "-0").         *)
(*   NormOC(c)   that r for the plain integer sum c (closed form)          *)
(*   OCAdd(a,b)  16-bit addition with end-around carry (word by word form) *)
(*   FoldRef(c)  the checksum: complement of NormOC(c)                     *)
(* FoldCond / FoldBody are the loop of gopacket.FoldChecksum transcribed:  *)
(*   for csum > 0xffff { csum = (csum >> 16) + (csum & 0xffff) }           *)
(*   return ^uint16(csum)                                                  *)
(* ChecksumFoldMC.tla runs that loop as a state machine; Apalache proves   *)
(* it equal to FoldRef, and OCAdd(hi,lo) equal to NormOC, for every 32-bit *)
(* accumulator.                                                            *)
(***************************************************************************)
EXTENDS Integers

\* @type: (Int, Int) => Int;
OCAdd(a, b) == IF a + b > 65535 THEN a + b - 65535 ELSE a + b

\* @type: Int => Int;
NormOC(c) == IF c = 0 THEN 0 ELSE ((c - 1) % 65535) + 1

\* @type: Int => Int;
Compl16(x) == 65535 - x

\* @type: Int => Int;
FoldRef(c) == Compl16(NormOC(c))

\* @type: Int => Bool;
FoldCond(c) == c > 65535

\* @type: Int => Int;
FoldBody(c) == (c \div 65536) + (c % 65536)
=============================================================================
