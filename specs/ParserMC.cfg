SPECIFICATION Spec
CONSTANTS
  Steps <- MC_Steps
  MaxScript = 3
INVARIANTS ParserEqualsLeadingRun EagerExplained TruncExact FixpointAgrees Export
CHECK_DEADLOCK FALSE
