------------------------------ MODULE SerPure ------------------------------
(***************************************************************************)
(* C07 - "serialization never panics; the bytes depend only on the layer,  *)
(* the payload and the options" - as a judge over recorded calls.          *)
(*                                                                         *)
(* A serializer is a FUNCTION of (layer value, payload, options).  The     *)
(* judge keeps a memo: the first outcome seen for a key is the reference,  *)
(* every later call with the same key - whatever happened to the buffer    *)
(* before (history h enumerated by SerHistory.tla), and whether it is the  *)
(* first or the second call in a row into that buffer - must give the      *)
(* same outcome.  Outcomes are ok(digest of the bytes) or err; there is no *)
(* transition for a panic or a hang.                                       *)
(*                                                                         *)
(* key = (case, input digest, options): `case` names the layer value (the  *)
(* bytes it was decoded from, the first layer type and the layer's index); *)
(* the input digest is the digest of the exported fields of the freshly    *)
(* decoded layer the call was made on, so "same layer" means same field    *)
(* values (FixLengths / ComputeChecksums mutate the object: every call     *)
(* gets its own decode).  Digests are compared for equality only.          *)
(*                                                                         *)
(* Event "hist" compares what the real buffer exposes after history h with *)
(* what SerHistory.tla (transcription of writer.go) predicted; it does not *)
(* reject (that is C18's subject) but is counted, so that a run in which   *)
(* no buffer was really dirty cannot pass for a check of the property.     *)
(***************************************************************************)
EXTENDS Integers, Sequences, FiniteSets, TLC

NewState == [sc |-> 0, memo |-> <<>>]      \* memo: function <<o, idg>> -> [res, d, h]

HistAgrees(e) == /\ e.gotBefore = e.staleBefore /\ e.gotAfter = e.staleAfter
                 /\ e.other = 0 /\ e.empty
                 /\ e.gotLayers = e.layersLeft          \* the recorded layer list (Layers()) is empty again
HistDirty(e) == e.gotBefore + e.gotAfter > 0

JudgeSer(st, e) ==
  LET k == <<e.o, e.idg>> IN
  IF e.sc # st.sc THEN <<"call-outside-case", st>>
  ELSE IF e.res = "panic" THEN <<"panic", st>>
  ELSE IF e.res \notin {"ok", "err"} THEN <<"unknown-outcome", st>>
  ELSE IF k \notin DOMAIN st.memo
       THEN <<"ok", [st EXCEPT !.memo = [x \in DOMAIN st.memo \cup {k} |->
                                           IF x = k THEN [res |-> e.res, d |-> e.d, h |-> e.h]
                                           ELSE st.memo[x]]]>>
  ELSE LET ref == st.memo[k] IN
       IF ref.res # e.res THEN <<"error-depends-on-buffer-history", st>>
       ELSE IF ref.d = e.d THEN <<"ok", st>>
       ELSE IF ref.h = e.h THEN <<"bytes-differ-on-repeat", st>>
       ELSE <<"bytes-depend-on-buffer-history", st>>

Judge(st, e) ==
  CASE e.op = "case" -> <<"ok", [sc |-> e.sc, memo |-> <<>>]>>
    [] e.op = "ser"  -> JudgeSer(st, e)
    [] e.op = "hist" -> <<"ok", st>>
    [] e.op = "hang" -> <<"hang", st>>
    [] OTHER         -> <<"unknown-event", st>>
=============================================================================
