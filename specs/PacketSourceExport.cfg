SPECIFICATION Spec
CONSTANTS
  Scripts <- MC_Scripts
  K = 2
INVARIANTS InOrderOnce Export
CHECK_DEADLOCK TRUE
