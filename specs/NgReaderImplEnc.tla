--------------------------- MODULE NgReaderImplEnc ---------------------------
(***************************************************************************)
(* Input side of NgReaderImpl.tla: the ABSTRACT pcapng block stream, its   *)
(* byte image (the layout map of PcapFile.tla generalised to both byte     *)
(* orders, every block kind the reader distinguishes and the corruption    *)
(* classes that change its control flow), 64-bit unsigned arithmetic on    *)
(* byte limbs (TLC integers are 32 bit), and the mapping of a well-formed  *)
(* stream to the scenario format of PcapFile.tla (ScenOf), so that         *)
(* PcapFile!Judge can be applied to what the transcription emits.          *)
(*                                                                         *)
(* An abstract block is a record; k is its kind:                           *)
(*  shb  [be, bom (0 = magic, 1 = zeroes, 2 = garbage), vmaj, vmin, opts]  *)
(*  idb  [link, snap, opts]                                                *)
(*  epb  [ifc, ts, cap, len, dn, opts]     pb (obsolete packet block) same *)
(*  spb  [len, dn]                                                         *)
(*  isb  [ifc, ts, opts]        dsb [st, sl, dn]                           *)
(*  nrb  [recs : <<[rt, rl, al, nl]>>]     unk [typ, dn]                   *)
(* and every block carries  dl (added to the declared leading total        *)
(* length), al (>= 0: the declared leading total length itself), dt (added *)
(* to the trailing copy), eoo (0 = end-of-options iff any option, 1 =      *)
(* never, 2 = always, 3 = with a non-zero length).  Numbers < 0 stand for  *)
(* 2^32 + n (2^16 + n in 16-bit fields).  ts indexes the constant table    *)
(* TsTab of 8-byte timestamps (most significant byte first); dn is the     *)
(* number of data bytes really present (cap / sl is what the field says).  *)
(* An option is [c (code), n (declared length), v (parameter)]; its value  *)
(* bytes follow from (block kind, c, n, v) by OptVal.  Packet data, secret *)
(* and unknown-block bytes follow from ordinal and position (DataByte).    *)
(* harness/cmd/ngread_impl builds the same image from the same records     *)
(* (through the real NgWriter where the stream is well formed) and reports *)
(* any difference in size or checksum as layout drift.                     *)
(***************************************************************************)
EXTENDS NgReader, Json

SX == INSTANCE SequencesExt

CONSTANT TsTab         \* sequence of 8-byte timestamps (tuples of 8 bytes, most significant first)

(* ------------------------------- bytes ----------------------------------- *)
RECURSIVE Pow2(_)
Pow2(n) == IF n = 0 THEN 1 ELSE 2 * Pow2(n - 1)
RECURSIVE Pow10(_)
Pow10(n) == IF n = 0 THEN 1 ELSE 10 * Pow10(n - 1)
Rev(s) == [i \in 1..Len(s) |-> s[Len(s) + 1 - i]]
Zeros(n) == [i \in 1..n |-> 0]
\* little-endian bytes of a number; n < 0 stands for 2^(8w) + n
ByteOf(n, i) == IF i > 4 THEN 0 ELSE (n \div Pow2(8 * (i - 1))) % 256          \* 0 <= n < 2^31
LE(n, w) == IF n >= 0 THEN [i \in 1..w |-> ByteOf(n, i)]
            ELSE LET u == (0 - n) - 1 IN [i \in 1..w |-> 255 - ByteOf(u, i)]
Num(n, w, be) == IF be THEN Rev(LE(n, w)) ELSE LE(n, w)
PadTo4(s) == s \o Zeros(Pad4(Len(s)) - Len(s))
Cut(s, n) == IF Len(s) >= n THEN SubSeq(s, 1, n) ELSE s \o Zeros(n - Len(s))
\* polynomial checksum of a byte string (equality only; the driver computes the same over what the reader returned)
HashBytes(s) == SX!FoldLeft(LAMBDA acc, x : (acc * 31 + x + 1) % 65521, 7, s)
Alpha(n) == [j \in 1..n |-> 97 + ((j - 1) % 26)]                   \* "abcdef..."
StrTab == <<"", "a", "ab", "abc", "abcd", "abcde", "abcdef", "abcdefg", "abcdefgh">>
ToStr(bs) == IF Len(bs) <= 8 /\ bs = Alpha(Len(bs)) THEN StrTab[Len(bs) + 1] ELSE "?"

(* ----------------------- unsigned 64-bit arithmetic ---------------------- *)
\* a value is 8 limbs base 256, least significant first
U64Zero == Zeros(8)
U64FromInt(n) == LE(n, 8)                                         \* 0 <= n < 2^31
U64FromBE(b) == Rev(b)                                            \* 8 bytes, most significant first
RECURSIVE DivLoop(_, _, _, _, _)
DivLoop(x, d, i, rem, q) ==                                       \* long division by d <= 2^23, from limb i downwards
  IF i = 0 THEN <<q, rem>>
  ELSE LET cur == rem * 256 + x[i] IN DivLoop(x, d, i - 1, cur % d, [q EXCEPT ![i] = cur \div d])
DivSmall(x, d) == DivLoop(x, d, 8, 0, U64Zero)                    \* <<quotient, remainder>>
RECURSIVE AddLoop(_, _, _, _, _)
AddLoop(x, y, i, c, r) == IF i > 8 THEN r                          \* modulo 2^64, as the code's uint64 addition
                          ELSE LET s == x[i] + y[i] + c IN AddLoop(x, y, i + 1, s \div 256, [r EXCEPT ![i] = s % 256])
U64Add(x, y) == AddLoop(x, y, 1, 0, U64Zero)
RECURSIVE MulLoop(_, _, _, _, _)
MulLoop(x, m, i, c, r) == IF i > 8 THEN r                          \* m <= 10^6
                          ELSE LET s == x[i] * m + c IN MulLoop(x, m, i + 1, s \div 256, [r EXCEPT ![i] = s % 256])
U64Mul(x, m) == MulLoop(x, m, 1, 0, U64Zero)
\* x div d^.. for d = b^e with b^e possibly above 2^23: in chunks; returns <<quotient, remainder>> with the remainder as
\* an integer (it must stay below 2^31: e <= 9 for base 10, e <= 31 for base 2)
DivPow(x, b, e, chunk) ==
  LET pw(n) == IF b = 10 THEN Pow10(n) ELSE Pow2(n) IN
  IF e <= chunk THEN DivSmall(x, pw(e))
  ELSE LET a == DivSmall(x, pw(chunk))
           c == DivSmall(a[1], pw(e - chunk))
       IN <<c[1], c[2] * pw(chunk) + a[2]>>
Div10(x, e) == DivPow(x, 10, e, 6)                                \* e <= 9
Div2(x, e) == DivPow(x, 2, e, 23)                                 \* e <= 31
\* the quotient alone, for exponents up to 12 (base 10)
Quot10(x, e) == IF e <= 6 THEN DivSmall(x, Pow10(e))[1] ELSE DivSmall(DivSmall(x, Pow10(6))[1], Pow10(e - 6))[1]
ClipMark == 2147483632                                            \* 0x7ffffff0: "does not fit a TLC integer" (as cmd/pcapio clip())
U64Clip(x) == IF x[5] = 0 /\ x[6] = 0 /\ x[7] = 0 /\ x[8] = 0 /\ x[4] < 128
              THEN x[1] + 256 * x[2] + 65536 * x[3] + 16777216 * x[4] ELSE ClipMark
\* the raw 64-bit timestamp of (s, ns) at resolution 10^-9, as the NgWriter computes it (ts = UnixNano)
U64OfSecNs(s, ns) == U64Add(U64Mul(U64Mul(U64Mul(U64FromInt(s), 1000), 1000), 1000), U64FromInt(ns))
BEOfSecNs(s, ns) == Rev(U64OfSecNs(s, ns))

(* --------------------------- option values ------------------------------- *)
\* value bytes of option [c, n, v] in a block of kind k of a section with byte order be (before padding)
OptVal(k, o, be) ==
  LET full ==
        CASE k = "idb" /\ o.c = 9  -> <<o.v % 256>>                                   \* if_tsresol
          [] k = "idb" /\ o.c = 14 -> Num(o.v, 8, be)                                 \* if_tsoffset (seconds)
          [] k = "idb" /\ o.c = 11 -> <<0>> \o Alpha(IF o.n > 0 THEN o.n - 1 ELSE 0)  \* if_filter: type octet + string
          [] k = "epb" /\ o.c = 2  -> LE(o.v, 4)                                      \* epb_flags (the code reads it little endian)
          [] k = "epb" /\ o.c \in {4, 5} -> LE(o.v, 8)                                \* epb_dropcount, epb_packetid
          [] k = "epb" /\ o.c = 6  -> LE(o.v, 4)                                      \* epb_queue
          [] k = "epb" /\ o.c = 3  -> <<(o.v + 2) % 256>> \o [j \in 1..(IF o.n > 0 THEN o.n - 1 ELSE 0) |-> (77 + 5 * o.v + j - 1) % 256]
          [] k = "epb" /\ o.c = 7  -> <<(o.v + 1) % 256>> \o [j \in 1..(IF o.n > 0 THEN o.n - 1 ELSE 0) |-> (90 + 5 * o.v + j - 1) % 256]
          [] k = "isb" /\ o.c \in {2, 3} -> Num(o.v, 4, be) \o Num(5, 4, be)          \* isb_starttime / endtime (hi, lo)
          [] k = "isb" /\ o.c \in {4, 5} -> Num(o.v, 8, be)                           \* isb_ifrecv / ifdrop
          [] OTHER -> Alpha(o.n)                                                      \* strings
  IN Cut(full, o.n)
EncOpt(k, o, be) == Num(o.c, 2, be) \o Num(o.n, 2, be) \o PadTo4(OptVal(k, o, be))
RECURSIVE EncOptsFrom(_, _, _, _)
EncOptsFrom(k, os, be, i) == IF i > Len(os) THEN <<>> ELSE EncOpt(k, os[i], be) \o EncOptsFrom(k, os, be, i + 1)
EncOpts(k, os, eoo, be) ==
  EncOptsFrom(k, os, be, 1)
  \o (CASE eoo = 0 -> IF Len(os) > 0 THEN Zeros(4) ELSE <<>>
        [] eoo = 1 -> <<>>
        [] eoo = 2 -> Zeros(4)
        [] OTHER   -> Num(0, 2, be) \o Num(4, 2, be) \o Zeros(4))     \* end-of-options with length 4

(* ----------------------------- block bodies ------------------------------ *)
DataByte(ord, j) == (17 * ord + 31 * j + 3) % 256                  \* byte j (from 0) of the data of the block with ordinal ord
DataOf(ord, n) == [j \in 1..n |-> DataByte(ord, j - 1)]
TsHiLo(b, be) == LET t == TsTab[b.ts] IN
                 (IF be THEN SubSeq(t, 1, 4) ELSE Rev(SubSeq(t, 1, 4))) \o (IF be THEN SubSeq(t, 5, 8) ELSE Rev(SubSeq(t, 5, 8)))
NrbRec(r, ri, be) ==
  IF r.rt = 0 THEN Num(0, 2, be) \o Num(r.rl, 2, be)
  ELSE Num(r.rt, 2, be) \o Num(r.rl, 2, be)
       \o PadTo4([j \in 1..r.al |-> (92 + 5 * ri + j - 1) % 256]
                 \o (IF r.nl > 0 THEN Alpha(r.nl - 1) \o <<0>> ELSE <<>>))
RECURSIVE NrbRecs(_, _, _)
NrbRecs(rs, i, be) == IF i > Len(rs) THEN <<>> ELSE NrbRec(rs[i], i - 1, be) \o NrbRecs(rs, i + 1, be)

BlockType(b) == CASE b.k = "shb" -> 168627466 [] b.k = "idb" -> 1 [] b.k = "pb" -> 2 [] b.k = "spb" -> 3 [] b.k = "nrb" -> 4
                  [] b.k = "isb" -> 5 [] b.k = "epb" -> 6 [] b.k = "dsb" -> 10 [] OTHER -> b.typ
\* everything between the leading and the trailing total length; ord = ordinal of the block in the stream
Body(b, be, ord) ==
  CASE b.k = "shb" -> (CASE b.bom = 0 -> (IF b.be THEN <<26, 43, 60, 77>> ELSE <<77, 60, 43, 26>>)
                         [] b.bom = 1 -> Zeros(4) [] OTHER -> <<26, 43, 60, 78>>)
                      \o Num(b.vmaj, 2, b.be) \o Num(b.vmin, 2, b.be) \o [i \in 1..8 |-> 255]
                      \o EncOpts("shb", b.opts, b.eoo, b.be)
    [] b.k = "idb" -> Num(b.link, 2, be) \o Zeros(2) \o Num(b.snap, 4, be) \o EncOpts("idb", b.opts, b.eoo, be)
    [] b.k = "epb" -> Num(b.ifc, 4, be) \o TsHiLo(b, be) \o Num(b.cap, 4, be) \o Num(b.len, 4, be)
                      \o PadTo4(DataOf(ord, b.dn)) \o EncOpts("epb", b.opts, b.eoo, be)
    [] b.k = "pb"  -> Num(b.ifc, 2, be) \o Zeros(2) \o TsHiLo(b, be) \o Num(b.cap, 4, be) \o Num(b.len, 4, be)
                      \o PadTo4(DataOf(ord, b.dn)) \o EncOpts("epb", b.opts, b.eoo, be)
    [] b.k = "spb" -> Num(b.len, 4, be) \o PadTo4(DataOf(ord, b.dn))
    [] b.k = "isb" -> Num(b.ifc, 4, be) \o TsHiLo(b, be) \o EncOpts("isb", b.opts, b.eoo, be)
    [] b.k = "dsb" -> Num(b.st, 4, be) \o Num(b.sl, 4, be) \o PadTo4(DataOf(ord, b.dn))
    [] b.k = "nrb" -> NrbRecs(b.recs, 1, be)
    [] OTHER       -> PadTo4(DataOf(ord, b.dn))
TrueLen(b, be, ord) == 12 + Len(Body(b, be, ord))
DeclLen(b, tl) == IF b.al >= 0 THEN b.al ELSE tl + b.dl
EncBlock(b, be, ord) ==
  LET e == IF b.k = "shb" THEN b.be ELSE be
      body == Body(b, e, ord)
      tl == 12 + Len(body)
  IN Num(BlockType(b), 4, e) \o Num(DeclLen(b, tl), 4, e) \o body \o Num(tl + b.dt, 4, e)
\* byte order in force behind block i (a section header with a valid magic switches it - also one of an unknown version)
RECURSIVE OrderAt(_, _)
OrderAt(s, i) == IF i = 0 THEN FALSE
                 ELSE IF s[i].k = "shb" /\ s[i].bom = 0 THEN s[i].be ELSE OrderAt(s, i - 1)
RECURSIVE EncFrom(_, _)
EncFrom(s, i) == IF i > Len(s) THEN <<>> ELSE EncBlock(s[i], OrderAt(s, i - 1), i) \o EncFrom(s, i + 1)
Image(s) == EncFrom(s, 1)
\* the true extent of every block: <<kind, offset, length>>
RECURSIVE ExtentsFrom(_, _, _)
ExtentsFrom(s, i, off) == IF i > Len(s) THEN <<>>
                          ELSE LET l == TrueLen(s[i], IF s[i].k = "shb" THEN s[i].be ELSE OrderAt(s, i - 1), i)
                               IN <<<<s[i].k, off, l>>>> \o ExtentsFrom(s, i + 1, off + l)
Extents(s) == ExtentsFrom(s, 1, 0)

(* ------------------- well-formed streams as PcapFile scenarios ----------- *)
Untouched(b) == b.dl = 0 /\ b.al < 0 /\ b.dt = 0 /\ b.eoo = 0
Codes(os) == [i \in 1..Len(os) |-> os[i].c]
\* the codes appear in the order the NgWriter writes them, each at most once unless listed in rep, none empty unless in emp
RECURSIVE InOrder(_, _, _, _)
InOrder(cs, order, rep, i) ==
  IF i > Len(cs) THEN TRUE
  ELSE \E p \in 1..Len(order) : /\ order[p] = cs[i]
                                /\ InOrder(cs, IF cs[i] \in rep THEN SubSeq(order, p, Len(order)) ELSE SubSeq(order, p + 1, Len(order)), rep, i + 1)
OptOf(os, c) == IF \E i \in 1..Len(os) : os[i].c = c THEN os[CHOOSE i \in 1..Len(os) : os[i].c = c] ELSE [c |-> c, n |-> 0, v |-> 0]
Has(os, c) == \E i \in 1..Len(os) : os[i].c = c
StrOK(o) == o.n >= 1 /\ o.n <= 8
WfShb(b) == /\ Untouched(b) /\ ~b.be /\ b.bom = 0 /\ b.vmaj = 1 /\ b.vmin = 0
            /\ InOrder(Codes(b.opts), <<4, 1, 2, 3>>, {}, 1) /\ \A i \in 1..Len(b.opts) : StrOK(b.opts[i])
WfIdb(b) == /\ Untouched(b) /\ b.link >= 0 /\ b.snap >= 0
            /\ InOrder(Codes(b.opts), <<2, 1, 3, 11, 12, 14, 9>>, {}, 1)
            /\ Len(b.opts) > 0 /\ b.opts[Len(b.opts)] = [c |-> 9, n |-> 1, v |-> 9]          \* the writer fixes the resolution to 10^-9
            /\ \A i \in 1..Len(b.opts) : LET o == b.opts[i] IN
                 CASE o.c = 9 -> TRUE [] o.c = 14 -> FALSE        \* if_tsoffset: known finding C14-ngwriter-tsoffset, outside this judge
                   [] o.c = 11 -> o.n >= 2 /\ o.n <= 9 [] OTHER -> StrOK(o)
WfEpb(b, nif) == /\ Untouched(b) /\ b.ifc >= 0 /\ b.ifc < nif /\ b.cap >= 0 /\ b.cap = b.dn /\ b.len >= b.cap
                 /\ U64Clip(Div10(U64FromBE(TsTab[b.ts]), 9)[1]) # ClipMark
                 /\ InOrder(Codes(b.opts), <<1, 2, 3, 4, 5, 6, 7>>, {1, 3, 7}, 1)
                 /\ \A i \in 1..Len(b.opts) : LET o == b.opts[i] IN
                      CASE o.c = 1 -> o.n <= 8 [] o.c = 2 -> o.n = 4 /\ o.v >= 0 /\ (o.v \div 1024) % 64 = 0 [] o.c \in {4, 5} -> o.n = 8 /\ o.v >= 0
                        [] o.c = 6 -> o.n = 4 /\ o.v >= 0 [] OTHER -> o.n >= 1
                 \* hash / verdict parameters number the options of their kind (algorithm = index + 2, type = index + 1)
                 /\ LET hs == SelectSeq(b.opts, LAMBDA o : o.c = 3)
                        vd == SelectSeq(b.opts, LAMBDA o : o.c = 7)
                    IN (\A i \in 1..Len(hs) : hs[i].v = i - 1) /\ (\A i \in 1..Len(vd) : vd[i].v = i - 1)
WfIsb(b, nif) == /\ Untouched(b) /\ b.ifc >= 0 /\ b.ifc < nif /\ InOrder(Codes(b.opts), <<2, 3, 5, 4>>, {}, 1)
                 /\ \A i \in 1..Len(b.opts) : b.opts[i].n = 8 /\ b.opts[i].v >= 0
WfDsb(b) == Untouched(b) /\ b.sl = b.dn /\ b.sl >= 0
WfNrb(b) == /\ Untouched(b) /\ Len(b.recs) > 0 /\ b.recs[Len(b.recs)] = [rt |-> 0, rl |-> 0, al |-> 0, nl |-> 0]
            /\ \A i \in 1..(Len(b.recs) - 1) : LET r == b.recs[i] IN r.rt \in {1, 2} /\ r.rl = r.al + r.nl /\ r.al = (IF r.rt = 1 THEN 4 ELSE 16) /\ r.nl >= 1
RECURSIVE WfFrom(_, _, _)
WfFrom(s, i, nif) ==
  IF i > Len(s) THEN TRUE
  ELSE LET b == s[i] IN
       CASE b.k = "idb" -> WfIdb(b) /\ WfFrom(s, i + 1, nif + 1)
         [] b.k = "epb" -> WfEpb(b, nif) /\ WfFrom(s, i + 1, nif)
         [] b.k = "isb" -> WfIsb(b, nif) /\ WfFrom(s, i + 1, nif)
         [] b.k = "dsb" -> WfDsb(b) /\ WfFrom(s, i + 1, nif)
         \* pcapgo has no writer for name resolution blocks: a stream with one is not a product of the NgWriter (the reader
         \* reports a truncation inside such a block as "could not read NameRecord ...: unexpected EOF", an error that
         \* is not io.ErrUnexpectedEOF - PcapFile!JudgeCuts would reject it, see X14IMPL notes)
         [] b.k = "nrb" -> FALSE
         [] OTHER -> FALSE
\* a stream the real NgWriter produces: one little-endian section of version 1.0 that starts with an interface
JudgeWF(s) == Len(s) >= 2 /\ s[1].k = "shb" /\ WfShb(s[1]) /\ s[2].k = "idb" /\ WfFrom(s, 2, 0)

SStr(os, c) == StrTab[OptOf(os, c).n + 1]
EpbSecNs(b) == LET d == Div10(U64FromBE(TsTab[b.ts]), 9) IN <<U64Clip(d[1]), d[2]>>
OptNum(os, c) == IF Has(os, c) THEN OptOf(os, c).v ELSE -1
ItemOf(b) ==
  CASE b.k = "idb" -> [t |-> "idb", link |-> b.link, snap |-> b.snap, name |-> SStr(b.opts, 2), cmt |-> SStr(b.opts, 1), descr |-> SStr(b.opts, 3),
                       filter |-> (IF Has(b.opts, 11) THEN StrTab[OptOf(b.opts, 11).n] ELSE ""), os |-> SStr(b.opts, 12), tsoff |-> 0]
    [] b.k = "epb" -> [t |-> "pkt", ifc |-> b.ifc, cap |-> b.cap, len |-> b.len, s |-> EpbSecNs(b)[1], ns |-> EpbSecNs(b)[2],
                       cm |-> LET c == SelectSeq(b.opts, LAMBDA o : o.c = 1) IN [i \in 1..Len(c) |-> StrTab[c[i].n + 1]],
                       fl |-> OptNum(b.opts, 2),
                       hs |-> LET c == SelectSeq(b.opts, LAMBDA o : o.c = 3) IN [i \in 1..Len(c) |-> c[i].n - 1],
                       dc |-> OptNum(b.opts, 4), pid |-> OptNum(b.opts, 5), q |-> OptNum(b.opts, 6),
                       vd |-> LET c == SelectSeq(b.opts, LAMBDA o : o.c = 7) IN [i \in 1..Len(c) |-> c[i].n - 1]]
    [] b.k = "isb" -> [t |-> "isb", ifc |-> b.ifc, st |-> OptNum(b.opts, 2), en |-> OptNum(b.opts, 3), dr |-> OptNum(b.opts, 5), rc |-> OptNum(b.opts, 4)]
    [] b.k = "dsb" -> [t |-> "dsb", n |-> b.sl]
    [] OTHER       -> [t |-> "nrb", recs |-> [i \in 1..(Len(b.recs) - 1) |-> [rt |-> b.recs[i].rt, al |-> b.recs[i].al, nl |-> b.recs[i].nl]]]
ScenOf(s) ==
  LET I == SelectSeq(s, LAMBDA b : b.k = "idb") IN
  [fmt |-> "ng", mixed |-> \E i \in 1..Len(I) : I[i].link # I[1].link,
   shb |-> [app |-> SStr(s[1].opts, 4), cmt |-> SStr(s[1].opts, 1), hw |-> SStr(s[1].opts, 2), os |-> SStr(s[1].opts, 3)],
   items |-> [i \in 1..(Len(s) - 1) |-> ItemOf(s[i + 1])]]
NoScenario == [fmt |-> "none", mixed |-> FALSE, shb |-> [app |-> "", cmt |-> "", hw |-> "", os |-> ""], items |-> <<>>]
=============================================================================
