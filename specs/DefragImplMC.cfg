SPECIFICATION Spec
CONSTANTS
  W = 65536
  MaxFO = 8183
  MaxList = 8192
  Cuts <- MC_CutsU3
  MaxFragBytes = 65535
  K2 <- MC_K2
  Empties = FALSE
  MaxOps = 4
  Cfgs <- MC_CfgsQuick
  Seed = 1
  LengthWithHeader = TRUE
  OverlapAdvance = TRUE
  IhlAware = TRUE
  StoreTail = TRUE
  OverrunFix = FALSE
  Script <- MC_NoScript
  ExportMod = 16
  ExportRem = 1
  ExportSig = TRUE
INVARIANTS ImplSatisfiesProp ListSorted CurrentIsSum HighestIsMax FinalIffListed LastSeenIsNewest KeysSeparate ListedWereReceived ReadyWasBuilt NoPanic Export
CHECK_DEADLOCK FALSE
