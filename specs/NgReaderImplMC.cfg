SPECIFICATION Spec
CONSTANTS
  TsTab <- MC_TsTab
  Heads <- MC_HeadsW
  Alphabet <- MC_AlphaWSmall
  MaxBlocks = 3
  Cfgs <- MC_CfgsQuick
  CutDeltas <- MC_CutsFew
  ReadStep = 65536
  Seed = 1
  CheckOptLen = TRUE
  ZeroLenResets = TRUE
  CheckPktLen = TRUE
  Script <- MC_NoScript
  FullOnly = FALSE
  RandomStart = FALSE
  ExportMod = 16
  ExportRem = 1
  ExportSig = TRUE
INVARIANTS ImplSatisfiesProp InterfacesOfCurrentSection LinkTypeFiltered ReturnedBuffers NoPanic ModelCoversInput PacketsMatchSource Export
CHECK_DEADLOCK FALSE
