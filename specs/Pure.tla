-------------------------------- MODULE Pure --------------------------------
(***************************************************************************)
(* Determinism / purity monitor in functional form (C02, C04 a+b):         *)
(* Judge(st, e) returns <<reason, st'>>, "ok" iff event e is allowed.      *)
(*                                                                         *)
(*  Call(key, digest)   a NewPacket call.  key = (input id, first layer,   *)
(*        Lazy, DecodeStreamsAsDatagrams, ownership option) - ownership    *)
(*        (copy / nocopy / pool) is projected OUT of the key when          *)
(*        st.proj is TRUE (C04: NoCopy and Pool change only where the      *)
(*        bytes live).  Allowed only if the key is new or memo[key] is     *)
(*        this digest, and only if the caller's input buffer is intact.    *)
(*  Pkt(pkt, own)       a packet is held for later reads.                  *)
(*  Read(pkt, acc, d)   allowed only if (pkt, acc) is new or was d before  *)
(*        (readers never change a packet: the action leaves pkts alone).   *)
(*  MutateInput(pkt)    the caller overwrites the buffer it passed to      *)
(*        NewPacket.  For a copying packet (default or Pool) nothing       *)
(*        changes - all earlier read results stay binding; for a NoCopy    *)
(*        packet the documented contract applies and its read results are  *)
(*        forgotten.                                                       *)
(*  Race(site), Panic(site), Hang, Crash have NO transition.               *)
(*                                                                         *)
(* Digests are opaque values compared for equality only.                   *)
(***************************************************************************)
EXTENDS Integers, Sequences, FiniteSets, TLC

NewState(proj) == [memo |-> <<>>, pkts |-> <<>>, reads |-> <<>>, proj |-> proj]

FPut(f, k, v) == [x \in DOMAIN f \cup {k} |-> IF x = k THEN v ELSE f[x]]
FDrop(f, S)   == [x \in DOMAIN f \ S |-> f[x]]

Owns == {"copy", "nocopy", "pool"}

Key(st, e) == <<e.in, e.first, e.lazy, e.dsad, IF st.proj THEN "*" ELSE e.own>>

JudgeCall(st, e) ==
  LET k == Key(st, e) IN
  IF e.own \notin Owns THEN <<"unknown-ownership", st>>
  ELSE IF ~e.intact THEN <<"input-buffer-written", st>>
  ELSE IF k \in DOMAIN st.memo THEN
       LET m == st.memo[k] IN
       IF m.digest = e.digest THEN <<"ok", st>>
       ELSE IF m.own # e.own THEN <<"ownership-option-changes-result", st>>
       ELSE IF e.phase = "conc" \/ m.phase = "conc" THEN <<"decode-differs-under-concurrency", st>>
       ELSE <<"decode-depends-on-history", st>>
  ELSE <<"ok", [st EXCEPT !.memo = FPut(@, k, [digest |-> e.digest, own |-> e.own, phase |-> e.phase])]>>

JudgePkt(st, e) ==
  IF e.own \notin Owns THEN <<"unknown-ownership", st>>
  ELSE <<"ok", [st EXCEPT !.pkts = FPut(@, e.pkt, [own |-> e.own, mutated |-> FALSE]),
                          !.reads = FDrop(@, {k \in DOMAIN st.reads : k[1] = e.pkt})]>>

JudgeMutate(st, e) ==
  IF e.pkt \notin DOMAIN st.pkts THEN <<"unknown-packet", st>>
  ELSE IF st.pkts[e.pkt].own = "nocopy"
       THEN <<"ok", [st EXCEPT !.pkts[e.pkt].mutated = TRUE,
                               !.reads = FDrop(@, {k \in DOMAIN st.reads : k[1] = e.pkt})]>>
       ELSE <<"ok", [st EXCEPT !.pkts[e.pkt].mutated = TRUE]>>

JudgeRead(st, e) ==
  LET k == <<e.pkt, e.acc>> IN
  IF e.pkt \notin DOMAIN st.pkts THEN <<"unknown-packet", st>>
  ELSE IF k \in DOMAIN st.reads THEN
       IF st.reads[k] = e.digest THEN <<"ok", st>>          \* UNCHANGED pkts, reads: readers do not write
       ELSE IF st.pkts[e.pkt].mutated THEN <<"packet-changed-after-input-mutation", st>>
       ELSE IF e.phase = "conc" THEN <<"shared-read-differs-from-sequential", st>>
       ELSE <<"repeated-read-differs", st>>
  ELSE <<"ok", [st EXCEPT !.reads = FPut(@, k, e.digest)]>>

Judge(st, e) ==
  CASE e.op = "epoch"  -> <<"ok", NewState(e.proj)>>
    [] e.op = "sc"     -> <<"ok", st>>
    [] e.op = "call"   -> JudgeCall(st, e)
    [] e.op = "pkt"    -> JudgePkt(st, e)
    [] e.op = "mutate" -> JudgeMutate(st, e)
    [] e.op = "read"   -> JudgeRead(st, e)
    [] e.op = "race"   -> <<"race", st>>
    [] e.op = "panic"  -> <<"panic", st>>
    [] e.op = "hang"   -> <<"hang", st>>
    [] e.op = "crash"  -> <<"crash", st>>
    [] OTHER           -> <<"unknown-event", st>>
=============================================================================
