------------------------- MODULE PacketSourceIndMC -------------------------
(* X22IND (c): TLC cross-check - IndInv of PacketSourceInd.tla holds in every reachable state within the C16 bounds *)
EXTENDS PacketSourceMC, PacketSourceInd
SafetySpec == Init /\ [][Next]_vars
=============================================================================
