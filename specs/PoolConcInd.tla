---------------------------- MODULE PoolConcInd ----------------------------
(***************************************************************************)
(* X22IND (b): an inductive invariant for PoolConc.tla (C12) - the         *)
(* ORIGINAL module, extended, not copied.  IndInv constrains every         *)
(* variable that matters (sched is a pure history) and implies NoPanic,    *)
(* NoMisdelivery, SingleEntry, NoSharedObject and CompletedAtMostOnce for  *)
(* the design with key re-validation (KeyCheck = TRUE, PanicOnRace =       *)
(* FALSE), both values of Bidir.  PoolConcProof.tla proves it with TLAPS   *)
(* for ANY Progs (any number of threads, programs of any length, any keys) *)
(* and any NConn; PoolConcIndMC.cfg lets TLC confirm on the C12 workloads  *)
(* that IndInv is an invariant at all.                                     *)
(*                                                                         *)
(* What the conjuncts say:                                                 *)
(*  Dir0    tcpassembly (~Bidir) knows one direction only                  *)
(*  A1..A4  allocation discipline of connection objects: everything        *)
(*          registered / on the free list was allocated (< fresh); the     *)
(*          free list has no duplicates and is disjoint from the map;      *)
(*          an object on the free list is completed; an object registered  *)
(*          under key k carries key k                                      *)
(*  S1..S5  stream discipline: a stream is attached to at most one object, *)
(*          a not yet completed object's stream has no completion, a       *)
(*          stream made by factory.New and not yet attached (pc =          *)
(*          "created") is nobody else's                                    *)
(***************************************************************************)
EXTENDS PoolConc

Key == Nat \X {0, 1}
PcSet == {"start", "looked", "created", "prelock", "flushing", "dead"}
StreamRec == [key : Key, used : BOOLEAN, completes : Nat, got : Seq(Key)]
ConnRec == [key : Key, stream : Nat, closed : SUBSET {0, 1}, completed : BOOLEAN]
LocRec == [conn : 0..NConn, stream : Nat, dir : {0, 1}, snap : SUBSET (1..NConn)]

\* what the proof assumes about the programs: finitely many finite programs whose items start with <<key, dir, ...>>
ProgsOK == /\ Len(Progs) \in Nat
           /\ \A t \in Threads : /\ Len(Progs[t]) \in Nat
                                 /\ \A i \in 1..Len(Progs[t]) : Progs[t][i][1] \in Nat /\ Progs[t][i][2] \in {0, 1}

TypeOK ==
  /\ DOMAIN conns \subseteq Key
  /\ \A k \in DOMAIN conns : conns[k] \in 1..NConn
  /\ free \in Seq(1..NConn)
  /\ fresh \in Nat /\ fresh >= 1
  /\ conn \in [1..NConn -> ConnRec]
  /\ streams \in Seq(StreamRec)
  /\ pc \in [Threads -> PcSet]
  /\ pi \in [Threads -> Nat \ {0}]
  /\ loc \in [Threads -> LocRec]
  /\ panic \in BOOLEAN /\ misdelivered \in BOOLEAN

InProg == \A t \in Threads : pc[t] \in {"looked", "created", "prelock"} => pi[t] <= Len(Progs[t])
Dir0 == ~Bidir => \A t \in Threads : loc[t].dir = 0
Locked == \A t \in Threads : pc[t] = "prelock" => loc[t].conn # 0
Alloc == \A t \in Threads : loc[t].conn < fresh /\ \A c \in loc[t].snap : c < fresh

A1 == /\ \A k \in DOMAIN conns : conns[k] < fresh
      /\ \A i \in 1..Len(free) : free[i] < fresh
A2 == /\ \A i \in 1..Len(free) : \A j \in 1..Len(free) : i # j => free[i] # free[j]
      /\ \A i \in 1..Len(free) : \A k \in DOMAIN conns : free[i] # conns[k]
A3 == \A i \in 1..Len(free) : conn[free[i]].completed
A4 == \A k \in DOMAIN conns : conn[conns[k]].key = k

S1 == \A s \in 1..Len(streams) : streams[s].completes <= 1
S2 == \A c \in 1..NConn : (conn[c].stream \in 1..Len(streams) /\ ~conn[c].completed) => streams[conn[c].stream].completes = 0
S3 == \A c1 \in 1..NConn : \A c2 \in 1..NConn : (c1 # c2 /\ conn[c1].stream # 0) => conn[c1].stream # conn[c2].stream
S4 == \A t \in Threads : pc[t] = "created" =>
         /\ loc[t].stream \in 1..Len(streams)
         /\ streams[loc[t].stream].completes = 0
         /\ \A c \in 1..NConn : conn[c].stream # loc[t].stream
         /\ \A t2 \in Threads : (t2 # t /\ pc[t2] = "created") => loc[t2].stream # loc[t].stream
S5 == \A c \in 1..NConn : conn[c].stream <= Len(streams)

IndInv == /\ TypeOK /\ InProg /\ Dir0 /\ Locked /\ Alloc
          /\ ~panic /\ ~misdelivered /\ SingleEntry
          /\ A1 /\ A2 /\ A3 /\ A4
          /\ S1 /\ S2 /\ S3 /\ S4 /\ S5

Safe == NoPanic /\ NoMisdelivery /\ SingleEntry /\ NoSharedObject /\ CompletedAtMostOnce
=============================================================================
