--------------------------- MODULE PacketSourceMC ---------------------------
EXTENDS PacketSource, Json
Alphabet == {"pkt", "timeout", "temp", "eof"}
MC_Scripts == UNION {[1..n -> Alphabet] : n \in 0..4}
\* harness-visible schedule export: terminal behaviours
Export == (pc = "exited" /\ chan = <<>>) => PrintT("BEH " \o ToJson([src |-> src, ops |-> ops]))
=============================================================================
