----------------------------- MODULE PureTrace -----------------------------
(* Implementation -> model: validates traces of the real decoders (drivers    *)
(* harness/cmd/pure) against Pure.tla.  Total: a rejected scenario is noted   *)
(* once per distinct (reason, sig) - capped - and skipped up to the next      *)
(* scenario ("sc") or epoch start; every line is consumed.                    *)
EXTENDS Pure, Json
VARIABLES l, st, bad, skip, nbad
tvars == <<l, st, bad, skip, nbad>>
Trace == ndJsonDeserialize("trace.ndjson")
Note(b, r) == IF \E i \in 1..Len(b) : b[i].reason = r.reason /\ b[i].sig = r.sig THEN b
              ELSE IF Len(b) < 100 THEN Append(b, r) ELSE b
TInit == l = 1 /\ st = NewState(FALSE) /\ bad = <<>> /\ skip = FALSE /\ nbad = 0
Step ==
  /\ l <= Len(Trace)
  /\ l' = l + 1
  /\ LET e == Trace[l] IN
     IF e.op = "epoch" THEN st' = Judge(st, e)[2] /\ skip' = FALSE /\ UNCHANGED <<bad, nbad>>
     ELSE IF e.op = "sc" THEN skip' = FALSE /\ UNCHANGED <<st, bad, nbad>>
     ELSE IF skip THEN UNCHANGED <<st, bad, skip, nbad>>
     ELSE LET r == Judge(st, e) IN
          IF r[1] = "ok" THEN st' = r[2] /\ UNCHANGED <<bad, skip, nbad>>
          ELSE /\ bad' = Note(bad, [sc |-> e.sc, line |-> l, op |-> e.op, reason |-> r[1], sig |-> e.sig])
               /\ nbad' = nbad + 1 /\ skip' = TRUE /\ UNCHANGED st
TSpec == TInit /\ [][Step]_tvars
Done == l = Len(Trace) + 1 => PrintT("VERDICT " \o ToJson([lines |-> Len(Trace), bad |-> bad, nbad |-> nbad]))
=============================================================================
