---------------------------- MODULE PacketTrace ----------------------------
(* Implementation -> model for the packet builder.  One event per scenario:  *)
(* a script (= the input bytes), an accessor program, and what the real lazy *)
(* and real eager packet answered.  Packet.tla predicts both.                *)
(*   reason "lazy-ne-eager"  : C03 verdict (real lazy differs from real eager)*)
(*   reason "error-laws"     : C01 verdict (error layer laws broken)          *)
(*   reason "panic"          : C01 verdict (NewPacket or an accessor panicked)*)
(*   reason "model-drift"    : real packets agree with each other and obey    *)
(*                             the laws but differ from Packet.tla (no verdict)*)
EXTENDS Integers, Sequences, TLC, Json

CONSTANTS Steps, MaxScript, MaxProg
VARIABLES script, lazy, prog, lastRes
INSTANCE Packet

VARIABLES l, bad
tvars == <<script, lazy, prog, lastRes, l, bad>>

Trace == ndJsonDeserialize("trace.ndjson")
Note(b, r) == IF Len(b) < 64 THEN Append(b, r) ELSE b

\* model results of a program on the lazy packet: sequence of Result values
RECURSIVE LazyRun(_, _, _, _, _)
LazyRun(pk, scr, pr, i, acc) ==
  IF i > Len(pr) THEN acc
  ELSE LET a  == <<pr[i][1], pr[i][2]>>
           p2 == LazyAfter(pk, scr, a)
       IN LazyRun(p2, scr, pr, i + 1, Append(acc, Result(p2, a)))

Matches(obs, res) ==   \* observed JSON result vs model Result
  IF obs.k = "ls" THEN obs.v = res[1] /\ obs.t = res[2] ELSE obs.v = res

ObsLaws(fin, scr) ==
  /\ fin.fail # 0 <=> Failing(scr)
  /\ fin.fail # 0 => fin.fail = Len(fin.types) /\ fin.types[fin.fail] = FailType
  /\ \A i \in 1..Len(fin.types) : fin.types[i] = FailType => i = fin.fail
  /\ fin.fail >= 0

Judge(e) ==
  IF e.op = "panic" THEN "panic"
  ELSE
  LET scr == e.script
      eg  == Eager(scr)
      ml  == LazyRun(NewPk, scr, e.prog, 1, <<>>)
      n   == Len(e.prog)
  IN IF ~e.same \/ \E i \in 1..n : e.lazy[i] # e.eager[i] THEN "lazy-ne-eager"
     ELSE IF e.lfin # e.efin THEN "lazy-ne-eager"
     ELSE IF ~ObsLaws(e.efin, scr) \/ ~ObsLaws(e.lfin, scr) THEN "error-laws"
     ELSE IF \/ \E i \in 1..n : ~Matches(e.lazy[i], ml[i])
             \/ \E i \in 1..n : ~Matches(e.eager[i], Result(eg, <<e.prog[i][1], e.prog[i][2]>>))
             \/ e.efin.types # eg.layers \/ e.efin.trunc # eg.trunc
             \/ e.efin.link # eg.link \/ e.efin.net # eg.net \/ e.efin.trans # eg.trans \/ e.efin.app # eg.app
          THEN "model-drift"
     ELSE "ok"

TInit == /\ script = <<>> /\ lazy = NewPk /\ prog = <<>> /\ lastRes = <<0, 0>>
         /\ l = 1 /\ bad = <<>>

Step == /\ l <= Len(Trace)
        /\ l' = l + 1
        /\ UNCHANGED <<script, lazy, prog, lastRes>>
        /\ LET e == Trace[l]
               r == Judge(e)
           IN bad' = IF r = "ok" THEN bad ELSE Note(bad, [sc |-> e.sc, line |-> l, op |-> e.op, reason |-> r])

TSpec == TInit /\ [][Step]_tvars
Done == l = Len(Trace) + 1 => PrintT("VERDICT " \o ToJson([lines |-> Len(Trace), bad |-> bad]))
=============================================================================
