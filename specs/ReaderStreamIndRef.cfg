SPECIFICATION Spec
CONSTANTS
  Batches <- MC_BatchesSmall
  ReadSizes = {1, 2, 8}
  LossErrors = TRUE
  AckInClose = TRUE
  MaxReads = 5
INVARIANTS RInd StuckIsEnabled NoPanic
PROPERTIES RRefines
VIEW MCView
CHECK_DEADLOCK TRUE
