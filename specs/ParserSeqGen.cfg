SPECIFICATION Spec
CONSTANTS
  N = 14
  M = 6
INVARIANTS PropAcceptsIdeal StickyCaught Export
CHECK_DEADLOCK FALSE
