---------------------------- MODULE ChecksumTrace ----------------------------
(* Implementation -> model: validates the observations of harness/cmd/cksum   *)
(* (gopacket.FoldChecksum, gopacket.ComputeChecksum, serialization with       *)
(* ComputeChecksums, VerifyChecksum of every checksummed layer and            *)
(* Packet.VerifyChecksums) against Checksum.tla.  Every event is judged on    *)
(* its own (the state only remembers the packet of the last "ser" event, from *)
(* which the verified packets must derive by at most one bit; "ser" events    *)
(* with a variant field come from re-used, decoded or pre-filled layer        *)
(* structs and are judged exactly like the others), so a rejection            *)
(* does not hide later events; one example per distinct (reason, proto, ip    *)
(* version) is kept, the list is capped.                                      *)
EXTENDS Checksum, Json, TLC
VARIABLES l, st, bad, nbad, cnt
tvars == <<l, st, bad, nbad, cnt>>
Trace == ndJsonDeserialize("trace.ndjson")
Has(e, f) == f \in DOMAIN e
Note(b, r) == IF \E i \in 1..Len(b) : b[i].reason = r.reason /\ b[i].proto = r.proto /\ b[i].v = r.v
                                           /\ b[i].variant = r.variant THEN b
              ELSE IF Len(b) < 60 THEN Append(b, r) ELSE b
Ops == {"fold", "sum", "ser", "verify", "pverify"}
TInit == l = 1 /\ st = NewState /\ bad = <<>> /\ nbad = 0 /\ cnt = [o \in Ops |-> 0]
Step ==
  /\ l <= Len(Trace)
  /\ l' = l + 1
  /\ LET e == Trace[l]
         r == Judge(st, e)
     IN /\ st' = r[2]
        /\ cnt' = IF e.op \in Ops THEN [cnt EXCEPT ![e.op] = @ + 1] ELSE cnt
        /\ IF r[1] = "ok" THEN UNCHANGED <<bad, nbad>>
           ELSE /\ nbad' = nbad + 1
                /\ bad' = Note(bad, [line |-> l, op |-> e.op, reason |-> r[1],
                                     proto |-> IF Has(e, "proto") THEN e.proto ELSE "",
                                     v |-> IF Has(e, "v") THEN e.v ELSE 0,
                                     variant |-> IF Has(e, "variant") THEN e.variant ELSE "",
                                     expected |-> IF e.op \in {"ser", "verify"} /\ r[1] # "harness-malformed"
                                                  THEN Expected(e.proto, e.v, e.bytes, e.off) ELSE -1])
TSpec == TInit /\ [][Step]_tvars
Done == l = Len(Trace) + 1 =>
          PrintT("VERDICT " \o ToJson([lines |-> Len(Trace), bad |-> bad, nbad |-> nbad, cnt |-> cnt]))
=============================================================================
