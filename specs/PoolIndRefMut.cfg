SPECIFICATION PSpec
CONSTANTS
  T = 2
  P = 2
  MaxBig = 1
  SplitLog = FALSE
  LateWrite = TRUE
INVARIANTS SameVerdicts
PROPERTIES ARefines
CHECK_DEADLOCK FALSE
