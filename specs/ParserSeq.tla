------------------------------ MODULE ParserSeq ------------------------------
(***************************************************************************)
(* C05 part 3: decoding a sequence of packets into the same layer objects   *)
(* gives, for every packet, the same result as decoding it into fresh       *)
(* objects.  Property in functional form (a memo, as a pure function has):  *)
(* Judge(memo, e) returns <<reason, memo'>>.                                 *)
(*   fresh(key, val) : input `key` decoded into fresh objects gave `val`    *)
(*   reuse(key, val) : input `key` decoded into objects (and a parser) that *)
(*                     decoded other inputs before gave `val`               *)
(* val = [types, err, ut, et, trunc, ds] (ds: one digest string per         *)
(* DecodeFromBytes call the parser made).                                   *)
(*                                                                          *)
(* Generator: every ordered pair over a pool of N inputs and every ordered  *)
(* triple over its first M inputs (indices; the driver draws the pools).    *)
(* Two decoders live inside the model: an ideal one (a function of the      *)
(* input only), which Judge must accept, and a sticky one (one field keeps  *)
(* the previous packet's value when the input leaves it unset), which       *)
(* Judge must reject on some sequence - the property is satisfiable and     *)
(* not vacuous.                                                             *)
(***************************************************************************)
EXTENDS Integers, Sequences, FiniteSets, TLC

Judge(memo, e) ==
  CASE e.op = "fresh" ->
         IF e.key \in DOMAIN memo
         THEN IF memo[e.key] = e.val THEN <<"ok", memo>> ELSE <<"fresh-not-deterministic", memo>>
         ELSE <<"ok", [k \in DOMAIN memo \cup {e.key} |-> IF k = e.key THEN e.val ELSE memo[k]]>>
    [] e.op = "reuse" ->
         IF e.key \notin DOMAIN memo THEN <<"no-fresh-reference", memo>>
         ELSE IF memo[e.key] = e.val THEN <<"ok", memo>>
         ELSE <<"stale-state", memo>>
    [] OTHER -> <<e.op, memo>>          \* "hang", "panic"

EmptyMemo == [k \in {} |-> 0]

-----------------------------------------------------------------------------
CONSTANTS N, M
VARIABLES seq, verdictIdeal, verdictSticky
gvars == <<seq, verdictIdeal, verdictSticky>>

\* model inputs: input i sets the optional field iff i is odd, to the value i
Sets(i) == i % 2 = 1
IdealVal(i) == [types |-> <<"L">>, err |-> "none", ut |-> "Unknown", et |-> "", trunc |-> FALSE,
                ds |-> <<IF Sets(i) THEN i ELSE 0>>]
RECURSIVE StickyField(_, _)
StickyField(s, n) == IF n = 0 THEN 0 ELSE IF Sets(s[n]) THEN s[n] ELSE StickyField(s, n - 1)
StickyVal(s) == [IdealVal(s[Len(s)]) EXCEPT !.ds = <<StickyField(s, Len(s))>>]

RefMemo == [i \in 1..N |-> IdealVal(i)]

Init == seq = <<>> /\ verdictIdeal = "ok" /\ verdictSticky = "ok"
Extend(i) ==
  LET s == Append(seq, i) IN
  /\ seq' = s
  /\ verdictIdeal' = Judge(RefMemo, [op |-> "reuse", key |-> i, val |-> IdealVal(i)])[1]
  /\ verdictSticky' = Judge(RefMemo, [op |-> "reuse", key |-> i, val |-> StickyVal(s)])[1]
Next == \/ Len(seq) < 2 /\ \E i \in 1..N : Extend(i)
        \/ Len(seq) = 2 /\ (\A j \in 1..2 : seq[j] <= M) /\ \E i \in 1..M : Extend(i)
Spec == Init /\ [][Next]_gvars

PropAcceptsIdeal == verdictIdeal = "ok"
\* the sticky decoder is caught exactly when an earlier input left a value the last one does not overwrite
StickyCaught == Len(seq) >= 1 =>
  (verdictSticky = "stale-state" <=> (~Sets(seq[Len(seq)]) /\ \E j \in 1..(Len(seq) - 1) : Sets(seq[j])))
=============================================================================
