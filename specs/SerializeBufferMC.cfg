SPECIFICATION Spec
CONSTANTS
  Sizes = {0, 1, 2, 3, 5}
  Hints <- MC_Hints
  MaxDepth = 5
  LTypes = {7}
  Stacks <- MC_Stacks
INVARIANTS Refines ImplSane WindowsAgree NoDup
PROPERTIES Survives ClearEmpties
CHECK_DEADLOCK FALSE
