------------------------------ MODULE TcpasmImpl ------------------------------
(***************************************************************************)
(* Implementation-shaped model of gopacket/tcpassembly (C10, C11): a       *)
(* transcription of /repo/tcpassembly/assembly.go for ONE unidirectional   *)
(* connection (in tcpassembly every direction is a connection of its own), *)
(* driven by the operation alphabet of ReasmGen.tla and by the callbacks   *)
(* of the conformance harness (harness/cmd/tcpasm_impl).                   *)
(*                                                                         *)
(*   Sequence.Difference / Add          Diff, Add (modulus M, constant WRAP*)
(*                                      is the literal "+= uint32Size")    *)
(*   pageCache.next / replace           Alloc, Replace (pageCache.used)    *)
(*   Assembler.AssembleWithTimestamp    AssembleOp (getConnection with the *)
(*                                      `end` flag, SYN / queue / contiguous)*)
(*   byteSpan                           ByteSpan                           *)
(*   insertIntoConn, pagesFromTCP, traverseConn, pushBetween               *)
(*   addNextFromConn, addContiguous, sendToConnection, skipFlush,          *)
(*   closeConnection, FlushWithOptions{CloseAll}, FlushOlderThan, FlushAll *)
(* Unlike reassembly, nothing is trimmed at insertion: queued pages may    *)
(* overlap and byteSpan cuts them when they are released.                  *)
(* Events are those the harness records; ImplSatisfiesProp: Reasm!Judge    *)
(* accepts every one of them.                                              *)
(***************************************************************************)
EXTENDS Reasm, Json

CONSTANTS M, WRAP, P, L, MaxOps, MaxSegLen,
          Cfgs,           \* set of configurations [limit, isn]
          TotalLimit,
          SkipReset,      \* TRUE: pageCache.next clears the page's Reassembly (today); FALSE: a recycled page keeps its Skip
          ExportMod, ExportRem, ExportSig

ASSUME TLCSet(1, {})

VARIABLES ops, conf, a, st, verdicts, pred
ivars == <<ops, conf, a, st, verdicts, pred>>

CID == 2                   \* harness: model connection id = 2*c + d with c = 1, d = 0
Fuel == 4 * (MaxOps + 2) * (MaxSegLen + 2)
Take(s, n) == SubSeq(s, 1, n)
Drop(s, n) == SubSeq(s, n + 1, Len(s))
MinI(x, y) == IF x < y THEN x ELSE y

(* assembly.go:57-69: uint32Size = 1 << 32 *)
Diff(s, t) ==
  IF s > M - (M \div 4) /\ t < M \div 4 THEN (t + WRAP) - s
  ELSE IF t > M - (M \div 4) /\ s < M \div 4 THEN t - (s + WRAP)
  ELSE t - s
Add(s, n) == (s + n) % M

NewConnC == [pages |-> 0, first |-> 0, last |-> 0, nextSeq |-> -1, lastSeen |-> 0, closed |-> FALSE]
NewAsm == [heap |-> <<>>, used |-> 0, exists |-> FALSE, conn |-> NewConnC, ret |-> <<>>,
           evs |-> <<>>, panic |-> FALSE, flags |-> {}, lastSkip |-> 0, tags |-> {}, ltags |-> {}]

Emit(x, e) == IF x.panic THEN x ELSE [x EXCEPT !.evs = Append(@, e)]
Panic(x, why) == [x EXCEPT !.panic = TRUE, !.flags = @ \cup {why}]
\* branch coverage of the transcription (drives the signature-directed export, see ReasmImpl.tla)
Tag(x, t) == [x EXCEPT !.tags = @ \cup {t}]

(* pageCache.next: p.prev = p.next = nil; p.Reassembly = Reassembly{Bytes: p.buf[:0], Seen: ts}.  The free list is LIFO,
   so the page object handed out is the one released last: lastSkip remembers its Skip for the SkipReset = FALSE shape *)
Alloc(x, ts) ==
  [x EXCEPT !.heap = Append(@, [seq |-> 0, b |-> <<>>, prev |-> 0, next |-> 0, seen |-> ts,
                                 skip |-> (IF SkipReset THEN 0 ELSE x.lastSkip), start |-> FALSE, end |-> FALSE, live |-> TRUE]),
            !.used = @ + 1, !.lastSkip = 0]
Replace(x, id) ==
  [x EXCEPT !.used = @ - 1, !.heap[id].live = FALSE, !.lastSkip = x.heap[id].skip,
            !.flags = IF x.heap[id].live THEN @ ELSE @ \cup {"page-released-twice"}]

RECURSIVE ListIds(_, _, _, _)
ListIds(x, p, acc, fuel) == IF p = 0 \/ fuel = 0 THEN acc ELSE ListIds(x, x.heap[p].next, Append(acc, p), fuel - 1)

(* byteSpan: assembly.go:617-628; returns <<toSend, next>> *)
ByteSpan(expected, received, bytes) ==
  IF expected = -1 THEN <<bytes, Add(received, Len(bytes))>>
  ELSE LET span == Diff(received, expected) IN
       IF span <= 0 THEN <<bytes, Add(received, Len(bytes))>>
       ELSE IF Len(bytes) < span THEN <<<<>>, expected>>
       ELSE <<Drop(bytes, span), Add(expected, Len(bytes) - span)>>

(* pagesFromTCP: assembly.go:742-766; returns [a, first, last, n] *)
RECURSIVE PFLoop(_, _, _, _, _, _, _)
PFLoop(x, cur, bytes, seq, first, n, ts) ==
  LET len == MinI(Len(bytes), P)
      x1 == [x EXCEPT !.heap[cur].b = Take(bytes, len), !.heap[cur].seq = seq]
      rest == Drop(bytes, len)
  IN IF Len(rest) = 0 THEN [a |-> x1, first |-> first, last |-> cur, n |-> n]
     ELSE LET x2 == Alloc(x1, ts)
              nid == Len(x2.heap)
              x3 == [x2 EXCEPT !.heap[cur].next = nid, !.heap[nid].prev = cur]
          IN PFLoop(x3, nid, rest, Add(seq, len), first, n + 1, ts)
PagesFromTCP(x, seq, bytes, end, ts) ==
  LET x1 == Alloc(x, ts)
      f == Len(x1.heap)
      r == PFLoop(x1, f, bytes, seq, f, 1, ts)
  IN [r EXCEPT !.a = [r.a EXCEPT !.heap[r.last].end = end]]

(* traverseConn: assembly.go:691-698; returns <<prev, current>> *)
RECURSIVE Traverse(_, _, _, _, _)
Traverse(x, prev, current, seq, fuel) ==
  IF prev # 0 /\ fuel > 0 /\ Diff(x.heap[prev].seq, seq) < 0 THEN Traverse(x, x.heap[prev].prev, prev, seq, fuel - 1)
  ELSE <<prev, current>>

(* pushBetween: assembly.go:704-718 *)
PushBetween(x, prev, next, first, last) ==
  LET x1 == IF next = 0 \/ x.conn.last = 0 THEN [x EXCEPT !.conn.last = last]
            ELSE [x EXCEPT !.heap[last].next = next, !.heap[next].prev = last]
      x2 == Tag(x1, IF next = 0 \/ x.conn.last = 0 THEN "ins-as-last" ELSE IF first # last THEN "ins-multi-before-page" ELSE "ins-before-page")
  IN IF prev = 0 \/ x2.conn.first = 0 THEN Tag([x2 EXCEPT !.conn.first = first], "ins-as-first")
     ELSE Tag([x2 EXCEPT !.heap[first].prev = prev, !.heap[prev].next = first], "ins-after-page")

(* addNextFromConn: assembly.go:768-788 *)
AddNextFromConn(x) ==
  LET f == x.conn.first
      pg == x.heap[f]
      ns == x.conn.nextSeq
      skip == IF ns = -1 THEN -1 ELSE IF Diff(ns, pg.seq) > 0 THEN Diff(ns, pg.seq) ELSE pg.skip
      bs == ByteSpan(ns, pg.seq, pg.b)
      x1 == [x EXCEPT !.heap[f].skip = skip, !.heap[f].b = bs[1], !.conn.nextSeq = bs[2],
                      !.ret = Append(@, [b |-> bs[1], skip |-> skip, start |-> pg.start, end |-> pg.end])]
      bt == IF Len(bs[1]) = Len(pg.b) THEN "pop-whole" ELSE IF Len(bs[1]) = 0 THEN "pop-all-duplicate" ELSE "pop-trimmed"
      x2 == Tag(Tag(Replace(x1, f), bt), IF skip < 0 THEN "pop-skip-unknown" ELSE IF skip = 0 THEN "pop-skip0" ELSE "pop-skip+")
      x3 == IF x2.conn.first = x2.conn.last THEN [x2 EXCEPT !.conn.first = 0, !.conn.last = 0]
            ELSE LET nx == x2.heap[f].next IN
                 IF nx = 0 THEN Panic(x2, "nil-dereference-addNextFromConn")
                 ELSE [x2 EXCEPT !.conn.first = nx, !.heap[nx].prev = 0]
  IN [x3 EXCEPT !.conn.pages = @ - 1]

(* addContiguous: assembly.go:644-648 *)
RECURSIVE AddContiguous(_, _)
AddContiguous(x, fuel) ==
  IF x.conn.first # 0 /\ ~x.panic /\ fuel > 0 /\ Diff(x.conn.nextSeq, x.heap[x.conn.first].seq) <= 0
  THEN AddContiguous(AddNextFromConn(x), fuel - 1) ELSE x

(* closeConnection: assembly.go:674-684 *)
RECURSIVE ReleaseList(_, _, _)
ReleaseList(x, p, fuel) == IF p = 0 \/ fuel = 0 THEN x ELSE ReleaseList(Replace(x, p), x.heap[p].next, fuel - 1)
CloseConnection(x) ==
  LET nq == Len(ListIds(x, x.conn.first, <<>>, Fuel))
      x1 == Emit(Tag(x, IF nq = 0 THEN "close-q0" ELSE IF nq = 1 THEN "close-q1" ELSE "close-q2+"), [op |-> "complete", c |-> CID, remove |-> TRUE])
      x2 == [x1 EXCEPT !.conn.closed = TRUE, !.exists = FALSE]
  IN ReleaseList(x2, x2.conn.first, Fuel)

(* the harness' Reassembled: one "sg" event per Reassembly *)
RECURSIVE RunsR(_, _, _)
RunsR(b, i, acc) ==
  IF i > Len(b) THEN acc
  ELSE LET n == Len(acc) IN
       IF n > 0 /\ acc[n][2] = b[i] THEN RunsR(b, i + 1, [acc EXCEPT ![n] = <<acc[n][1], b[i] + 1>>])
       ELSE RunsR(b, i + 1, Append(acc, <<b[i], b[i] + 1>>))
RECURSIVE EmitBatch(_, _)
EmitBatch(x, i) ==
  IF i > Len(x.ret) THEN x
  ELSE LET r == x.ret[i] IN
       EmitBatch(Emit(x, [op |-> "sg", c |-> CID, d |-> 0, srun |-> <<>>, nrun |-> RunsR(r.b, 1, <<>>), skip |-> r.skip,
                          start |-> r.start, end |-> r.end, keep |-> -1, total |-> Len(r.b)]), i + 1)

(* sendToConnection: assembly.go:632-641 *)
SendToConnection(x) ==
  LET x1 == AddContiguous(x, Fuel)
      nb == Len(x1.ret)
      x2 == EmitBatch(Tag(x1, IF nb = 1 THEN "batch1" ELSE IF nb = 2 THEN "batch2" ELSE "batch3+"), 1)
  IN IF x2.ret[Len(x2.ret)].end THEN CloseConnection(x2) ELSE x2

(* skipFlush: assembly.go:653-665 *)
SkipFlush(x) ==
  IF x.conn.first = 0 THEN CloseConnection(Tag(x, "skipflush-close"))
  ELSE SendToConnection(AddContiguous(AddNextFromConn(Tag([x EXCEPT !.ret = <<>>], "skipflush-send")), Fuel))

(* insertIntoConn: assembly.go:720-736 *)
InsertIntoConn(x, seq, bytes, end, ts) ==
  IF x.conn.first # 0 /\ x.heap[x.conn.first].seq = x.conn.nextSeq THEN Panic(x, "wtf")
  ELSE LET pf == PagesFromTCP(x, seq, bytes, end, ts)
           tr == Traverse(pf.a, pf.a.conn.last, 0, seq, Fuel)
           x1 == PushBetween(pf.a, tr[1], tr[2], pf.first, pf.last)
           x2 == [x1 EXCEPT !.conn.pages = @ + pf.n]
       IN IF (conf.limit > 0 /\ x2.conn.pages >= conf.limit) \/ (TotalLimit > 0 /\ x2.used >= TotalLimit)
          THEN Tag(AddNextFromConn(x2), "limit-hit") ELSE Tag(x2, IF pf.n > 1 THEN "queued-multi-page" ELSE IF Len(bytes) = 0 THEN "queued-empty" ELSE "queued")

Api(x, call, t, pktpages) ==
  LET q == IF x.exists THEN ListIds(x, x.conn.first, <<>>, Fuel) ELSE <<>>
  IN Emit(x, [op |-> "api", call |-> call, t |-> t, pages |-> x.used, conns |-> (IF x.exists THEN 1 ELSE 0),
              maxq |-> Len(q), oldest |-> (IF Len(q) = 0 THEN -1 ELSE x.heap[q[1]].seen), pktpages |-> pktpages])

(* AssembleWithTimestamp: assembly.go:540-615 *)
AssembleOp(x0, lo, hi, syn, fin, rst, ts) ==
  LET segEv == [op |-> "seg", c |-> CID, d |-> 0, lo |-> (IF syn THEN 0 ELSE lo), hi |-> (IF syn THEN 0 ELSE hi),
                syn |-> syn, fin |-> fin, rst |-> rst, force |-> FALSE, ts |-> ts]
      seq == IF syn THEN conf.isn ELSE Add(conf.isn, 1 + lo)
      bytes == IF syn THEN <<>> ELSE [i \in 1..(hi - lo) |-> lo + i - 1]
      endflag == ~syn /\ Len(bytes) = 0            \* getConnection(key, !t.SYN && len(payload) == 0, ts)
      n == IF syn THEN 0 ELSE hi - lo
  IN IF ~x0.exists /\ endflag
     THEN Api(Emit(Tag(x0, "ignored-empty"), segEv), "assemble", 0, 0)                 \* empty packet on an unknown connection: ignored
     ELSE
     LET x1 == IF x0.exists THEN x0
               ELSE Emit([x0 EXCEPT !.exists = TRUE, !.conn = [NewConnC EXCEPT !.lastSeen = x0.conn.lastSeen]], [op |-> "new", c |-> CID])
         x2 == Emit(x1, segEv)
         x3a == [x2 EXCEPT !.ret = <<>>, !.conn.lastSeen = IF @ < ts THEN ts ELSE @]
         ns == x3a.conn.nextSeq
         x3 == Tag(x3a, IF ns = -1 THEN (IF syn THEN "start-syn" ELSE "wait-for-start")
                        ELSE IF Diff(ns, seq) > 0 THEN "gap-queue"
                        ELSE IF syn THEN "syn-again"
                        ELSE IF Diff(seq, ns) = 0 THEN "contiguous" ELSE IF Diff(seq, ns) >= Len(bytes) THEN "retransmit-old" ELSE "retransmit-overlap")
         x4 == IF ns = -1
               THEN (IF syn THEN [x3 EXCEPT !.ret = <<[b |-> bytes, skip |-> 0, start |-> TRUE, end |-> FALSE]>>,
                                            !.conn.nextSeq = Add(seq, Len(bytes) + 1)]
                     ELSE InsertIntoConn(x3, seq, bytes, rst \/ fin, ts))
               ELSE IF Diff(ns, seq) > 0 THEN InsertIntoConn(x3, seq, bytes, rst \/ fin, ts)
               ELSE LET bs == ByteSpan(ns, seq, bytes) IN
                    [x3 EXCEPT !.ret = <<[b |-> bs[1], skip |-> 0, start |-> FALSE, end |-> (rst \/ fin)]>>, !.conn.nextSeq = bs[2]]
         x5 == IF Len(x4.ret) > 0 /\ ~x4.panic THEN SendToConnection(x4) ELSE x4
     IN Api(x5, "assemble", 0, (n + P - 1) \div P)

RECURSIVE FlushAllLoop(_, _)
FlushAllLoop(x, fuel) ==
  IF x.conn.closed \/ x.panic THEN x ELSE IF fuel = 0 THEN Panic(x, "flushall-does-not-terminate") ELSE FlushAllLoop(SkipFlush(x), fuel - 1)
FlushAllOp(x) ==
  LET x1 == Emit(x, [op |-> "flushb", kind |-> "all", t |-> 0])
      x2 == IF x1.exists THEN FlushAllLoop(x1, Fuel) ELSE x1
  IN Api(Emit(x2, [op |-> "flushe", kind |-> "all", t |-> 0]), "flushall", 0, 0)

RECURSIVE FOLoop(_, _, _)
FOLoop(x, t, fuel) ==
  IF x.conn.first # 0 /\ fuel > 0 /\ ~x.panic /\ x.heap[x.conn.first].seen < t
  THEN LET y == SkipFlush(x) IN IF y.conn.closed THEN y ELSE FOLoop(y, t, fuel - 1)
  ELSE x
FlushOlderOp(x, t) ==
  LET x1 == Emit(x, [op |-> "flushb", kind |-> "older", t |-> t])
      x2 == IF x1.exists /\ ~x1.conn.closed
            THEN LET y == FOLoop(x1, t, Fuel) IN
                 IF ~y.conn.closed /\ y.conn.first = 0 /\ y.conn.lastSeen < t THEN CloseConnection(Tag(y, "age-close"))
                 ELSE Tag(y, IF y.conn.closed THEN "age-flush-closed" ELSE IF y.conn.first # 0 THEN "age-keeps-newer-data" ELSE "age-keeps-recent-conn")
            ELSE x1
  IN Api(Emit(x2, [op |-> "flushe", kind |-> "older", t |-> t]), "flusholder", t, 0)

-----------------------------------------------------------------------------
RECURSIVE Feed(_, _, _, _)
Feed(s, evs, i, bad) ==
  IF i > Len(evs) THEN <<s, bad>>
  ELSE LET r == Judge(s, evs[i])
       IN Feed(r[2], evs, i + 1, IF r[1] = "ok" THEN bad ELSE Append(bad, <<r[1], evs[i]>>))

Init == /\ ops = <<>>
        /\ conf \in Cfgs
        /\ a = NewAsm
        /\ st = Judge(NewState, [op |-> "cfg", asm |-> "tcpassembly", limit |-> conf.limit])[2]
        /\ verdicts = <<>>
        /\ pred = <<>>

Do(op, x) ==
  LET evs == IF x.panic THEN Append(x.evs, [op |-> "panic"]) ELSE x.evs
      f == Feed(st, evs, 1, verdicts)
  IN /\ ops' = Append(ops, op)
     /\ a' = [x EXCEPT !.evs = <<>>, !.ret = <<>>, !.tags = {}, !.ltags = x.tags]
     /\ st' = f[1] /\ verdicts' = f[2]
     /\ pred' = Append(pred, evs)
     /\ UNCHANGED conf

Next ==
  /\ Len(ops) < MaxOps
  /\ ~a.panic
  /\ LET ts == Len(ops) + 1 IN
     \/ \E lo \in 0..(L - 1), hi \in 1..L :
           /\ lo < hi /\ hi - lo <= MaxSegLen
           /\ \E fin \in {FALSE, TRUE} : (fin => hi = L)
                 /\ Do(<<"seg", 0, lo, hi, FALSE, fin>>, AssembleOp(a, lo, hi, FALSE, fin, FALSE, ts))
     \/ \E p \in 0..L : Do(<<"rst", 0, p>>, AssembleOp(a, p, p, FALSE, FALSE, TRUE, ts))
     \/ Do(<<"seg", 0, 0, 0, TRUE, FALSE>>, AssembleOp(a, 0, 0, TRUE, FALSE, FALSE, ts))
     \/ Do(<<"flushall">>, FlushAllOp(a))
     \/ \E t \in {Len(ops), Len(ops) + 1} : t >= 2 /\ Do(<<"flusholder", t>>, FlushOlderOp(a, t))

Spec == Init /\ [][Next]_ivars

ImplSatisfiesProp ==
  verdicts = <<>> \/ (PrintT("CEX " \o ToJson([cfg |-> conf, ops |-> ops, verdicts |-> verdicts, flags |-> a.flags])) /\ FALSE)

\* the page list of the pooled connection: live pages, mirrored links, conn.pages exact, pageCache.used exact, contents
\* match sequence numbers (the list is ordered by packet start only: a multi-page packet is inserted as one block)
RECURSIVE WalkOK(_, _, _, _)
WalkOK(x, p, prev, fuel) ==
  IF p = 0 THEN TRUE ELSE fuel > 0 /\ x.heap[p].live /\ x.heap[p].prev = prev /\ WalkOK(x, x.heap[p].next, p, fuel - 1)
HeapSane ==
  a.exists =>
    LET q == ListIds(a, a.conn.first, <<>>, Fuel) IN
    /\ WalkOK(a, a.conn.first, 0, Fuel)
    /\ a.conn.last = (IF Len(q) = 0 THEN 0 ELSE q[Len(q)])
    /\ a.conn.pages = Len(q)
    /\ a.used = Len(q)
    /\ \A i \in 1..Len(q) : \A k \in 1..Len(a.heap[q[i]].b) : Add(conf.isn, 1 + a.heap[q[i]].b[k]) = Add(a.heap[q[i]].seq, k - 1)
NoLeak == ~a.exists => a.used = 0
NoFlags == a.flags = {}

RECURSIVE OpsHash(_, _, _)
OpsHash(o, i, acc) ==
  IF i > Len(o) THEN acc
  ELSE LET e == o[i]
           c == IF e[1] = "seg" THEN 1 + 2 * e[3] + 16 * e[4] + (IF e[5] THEN 128 ELSE 0) + (IF e[6] THEN 256 ELSE 0)
                ELSE IF e[1] = "rst" THEN 513 + 2 * e[3]
                ELSE IF e[1] = "flushall" THEN 601 ELSE 611 + e[2]
       IN OpsHash(o, i + 1, (acc * 131 + c) % 1000003)
BehHash == (OpsHash(ops, 1, 7) + 17 * conf.isn + 5 * conf.limit) % ExportMod
Complete == Len(ops) = MaxOps \/ a.panic
Sig == <<a.ltags, conf.limit>>
ExportLine(kind) == PrintT(kind \o ToJson([cfg |-> conf, ops |-> ops, pred |-> pred, flags |-> a.flags, verdicts |-> verdicts, sig |-> Sig]))
Export ==
  Complete => IF BehHash = ExportRem THEN ExportLine("BEH ")
              ELSE IF ExportSig /\ Sig \notin TLCGet(1) THEN TLCSet(1, TLCGet(1) \cup {Sig}) /\ ExportLine("SIG ")
              ELSE TRUE
=============================================================================
