// Package corpus harvests real packets from the repository's own test fixtures at run time
// (every []byte{...} literal of the *_test.go files, every capture file) and derives structural
// mutations of them.  Nothing is cached: the corpus follows /repo's working tree.
package corpus

import (
	"go/ast"
	"go/parser"
	"go/token"
	"os"
	"path/filepath"
	"sort"
	"strconv"
	"strings"

	"github.com/gopacket/gopacket"
	"github.com/gopacket/gopacket/layers"
	"github.com/gopacket/gopacket/pcapgo"
	"verif/harness/vh"
)

type Fixture struct {
	Name string
	Data []byte
	// Link is the link type for capture-file packets (0 = unknown: literal from a test file)
	First gopacket.LayerType
}

func Repo() string {
	if r := os.Getenv("VERIF_REPO"); r != "" {
		return r
	}
	return "/repo"
}

func litBytes(cl *ast.CompositeLit) []byte {
	at, ok := cl.Type.(*ast.ArrayType)
	if !ok || at.Len != nil {
		return nil
	}
	id, ok := at.Elt.(*ast.Ident)
	if !ok || (id.Name != "byte" && id.Name != "uint8") {
		return nil
	}
	out := make([]byte, 0, len(cl.Elts))
	for _, e := range cl.Elts {
		bl, ok := e.(*ast.BasicLit)
		if !ok {
			return nil
		}
		switch bl.Kind {
		case token.INT:
			v, err := strconv.ParseUint(bl.Value, 0, 8)
			if err != nil {
				return nil
			}
			out = append(out, byte(v))
		case token.CHAR:
			s, err := strconv.Unquote(bl.Value)
			if err != nil || len(s) != 1 {
				return nil
			}
			out = append(out, s[0])
		default:
			return nil
		}
	}
	return out
}

// guessFirst: test literals are mostly Ethernet frames; a few start at other layers.
func guessFirst(name string, file string) gopacket.LayerType {
	lf := strings.ToLower(file + ":" + name)
	switch {
	case strings.Contains(lf, "radiotap"):
		return layers.LayerTypeRadioTap
	case strings.Contains(lf, "dot11") && !strings.Contains(lf, "radiotap"):
		return layers.LayerTypeDot11
	case strings.Contains(lf, "prism"):
		return layers.LayerTypePrismHeader
	case strings.Contains(lf, "usb"):
		return layers.LayerTypeUSB
	case strings.Contains(lf, "pflog"):
		return layers.LayerTypePFLog
	case strings.Contains(lf, "loopback"):
		return layers.LayerTypeLoopback
	case strings.Contains(lf, "linuxsll2") || strings.Contains(lf, "sll2"):
		return layers.LayerTypeLinuxSLL2
	case strings.Contains(lf, "linuxsll") || strings.Contains(lf, "sll"):
		return layers.LayerTypeLinuxSLL
	case strings.Contains(lf, "ppp") && !strings.Contains(lf, "pppoe"):
		return layers.LayerTypePPP
	}
	return layers.LayerTypeEthernet
}

func harvestGoFile(path string, out *[]Fixture) {
	fset := token.NewFileSet()
	f, err := parser.ParseFile(fset, path, nil, 0)
	if err != nil {
		return
	}
	base := filepath.Base(path)
	n := 0
	var curName string
	ast.Inspect(f, func(nd ast.Node) bool {
		switch x := nd.(type) {
		case *ast.ValueSpec:
			if len(x.Names) > 0 {
				curName = x.Names[0].Name
			}
		case *ast.FuncDecl:
			curName = x.Name.Name
		case *ast.CompositeLit:
			if b := litBytes(x); len(b) >= 4 {
				n++
				*out = append(*out, Fixture{Name: base + ":" + curName + "#" + strconv.Itoa(n), Data: b, First: guessFirst(curName, base)})
				return false
			}
		}
		return true
	})
}

func harvestPcap(path string, out *[]Fixture) {
	f, err := os.Open(path)
	if err != nil {
		return
	}
	defer f.Close()
	base := filepath.Base(path)
	add := func(lt layers.LinkType, i int, d []byte) {
		first := layers.LayerTypeEthernet
		switch lt {
		case layers.LinkTypeNull, layers.LinkTypeLoop:
			first = layers.LayerTypeLoopback
		case layers.LinkTypeRaw, layers.LinkTypeIPv4:
			first = layers.LayerTypeIPv4
		case layers.LinkTypeIPv6:
			first = layers.LayerTypeIPv6
		case layers.LinkTypeLinuxSLL:
			first = layers.LayerTypeLinuxSLL
		case layers.LinkTypeLinuxSLL2:
			first = layers.LayerTypeLinuxSLL2
		case layers.LinkTypeIEEE80211Radio:
			first = layers.LayerTypeRadioTap
		case layers.LinkTypeIEEE802_11:
			first = layers.LayerTypeDot11
		case layers.LinkTypePPP:
			first = layers.LayerTypePPP
		}
		cp := append([]byte(nil), d...)
		*out = append(*out, Fixture{Name: base + "#" + strconv.Itoa(i), Data: cp, First: first})
	}
	if strings.HasSuffix(path, ".pcapng") {
		r, err := pcapgo.NewNgReader(f, pcapgo.DefaultNgReaderOptions)
		if err != nil {
			return
		}
		for i := 0; i < 400; i++ {
			d, _, err := r.ReadPacketData()
			if err != nil {
				return
			}
			add(r.LinkType(), i, d)
		}
		return
	}
	r, err := pcapgo.NewReader(f)
	if err != nil {
		return
	}
	for i := 0; i < 400; i++ {
		d, _, err := r.ReadPacketData()
		if err != nil {
			return
		}
		add(r.LinkType(), i, d)
	}
}

var cached []Fixture

// Load returns all fixtures, sorted by name (deterministic).
func Load() []Fixture {
	if cached != nil {
		return cached
	}
	repo := Repo()
	var out []Fixture
	for _, dir := range []string{"layers", ".", "pcapgo", "reassembly", "tcpassembly", "ip4defrag", "ip6defrag", "pcap", "defrag/lcmdefrag"} {
		ms, _ := filepath.Glob(filepath.Join(repo, dir, "*_test.go"))
		sort.Strings(ms)
		for _, m := range ms {
			harvestGoFile(m, &out)
		}
	}
	for _, pat := range []string{"layers/testdata/*.pcap", "layers/testdata/*.pcapng", "pcap/*.pcap", "pcapgo/tests/*.pcapng", "pcapgo/tests/le/*.pcapng", "pcapgo/tests/be/*.pcapng"} {
		ms, _ := filepath.Glob(filepath.Join(repo, pat))
		sort.Strings(ms)
		for _, m := range ms {
			var tmp []Fixture
			harvestPcap(m, &tmp)
			if len(tmp) > 60 { // keep capture files from dominating
				tmp = tmp[:60]
			}
			out = append(out, tmp...)
		}
	}
	// dedupe by content
	seen := map[string]bool{}
	var ded []Fixture
	for _, f := range out {
		k := string(f.Data)
		if seen[k] {
			continue
		}
		seen[k] = true
		ded = append(ded, f)
	}
	sort.SliceStable(ded, func(i, j int) bool { return ded[i].Name < ded[j].Name })
	cached = ded
	return ded
}

// Mutate derives a structurally mutated copy. kind is chosen by r.
func Mutate(r *vh.Rand, d []byte) ([]byte, string) {
	if len(d) == 0 {
		return []byte{byte(r.U64())}, "one-byte"
	}
	c := append([]byte(nil), d...)
	switch r.Intn(10) {
	case 9: // pad to a length around the packet pool's block size / typical MTU boundaries
		n := []int{1499, 1500, 1501, 1514, 1515, 1518, 2047, 2048, 4000, 9000}[r.Intn(10)]
		for len(c) < n {
			c = append(c, byte(len(c)))
		}
		return c[:n], "pad" + strconv.Itoa(n)
	case 0: // truncation at a random offset
		n := r.Intn(len(c))
		return c[:n], "trunc@" + strconv.Itoa(n)
	case 1: // truncation near a boundary of the first 64 bytes
		n := r.Intn(min(len(c), 64))
		return c[:n], "trunc@" + strconv.Itoa(n)
	case 2: // one byte to an extreme
		i := r.Intn(len(c))
		v := []byte{0x00, 0xff, 0x7f, 0x80, 0x01, 0xfe}[r.Intn(6)]
		c[i] = v
		return c, "set@" + strconv.Itoa(i)
	case 3: // +-1
		i := r.Intn(len(c))
		if r.Bool() {
			c[i]++
		} else {
			c[i]--
		}
		return c, "inc@" + strconv.Itoa(i)
	case 4: // bit flip
		i := r.Intn(len(c))
		c[i] ^= 1 << uint(r.Intn(8))
		return c, "flip@" + strconv.Itoa(i)
	case 5: // 16-bit field to boundary value (length fields)
		if len(c) >= 2 {
			i := r.Intn(len(c) - 1)
			v := []uint16{0, 1, 0xffff, 0x7fff, 0x8000, uint16(len(c)), uint16(len(c) - i), 4, 8, 20,
				0xc00c, 0xc000 | uint16((i-42)&0x3fff), 0xc000 | uint16((i-12)&0x3fff), 0xc000 | uint16(i&0x3fff)}[r.Intn(14)]
			c[i], c[i+1] = byte(v>>8), byte(v)
			if r.Intn(4) == 0 {
				c[i], c[i+1] = c[i+1], c[i]
			}
			return c, "len16@" + strconv.Itoa(i)
		}
		return c, "same"
	case 6: // two mutations: set + truncate
		i := r.Intn(len(c))
		c[i] = byte(r.U64())
		n := i + 1 + r.Intn(len(c)-i)
		return c[:n], "set+trunc"
	case 7: // append garbage
		return append(c, r.Bytes(1+r.Intn(40))...), "extend"
	default: // header region random byte
		i := r.Intn(min(len(c), 80))
		c[i] = byte(r.U64())
		return c, "rnd@" + strconv.Itoa(i)
	}
}

// RegisteredTypes returns every registered layer type (those with metadata), ascending.
func RegisteredTypes() []gopacket.LayerType {
	var out []gopacket.LayerType
	for i := 0; i < 4000; i++ {
		lt := gopacket.LayerType(i)
		if n := lt.String(); n != strconv.Itoa(i) && !strings.HasPrefix(n, "Script") { // Script*: the harness's own scripted layers
			out = append(out, lt)
		}
	}
	return out
}

// HeaderOnly cuts a fixture right behind the header of one of its layers accepted by want, so that this layer
// has an empty payload (the boundary where append(Contents, Payload...) returns Contents itself, length fields
// point at nothing, and the next decoder gets zero bytes).  Returns nil if no layer qualifies.
func HeaderOnly(r *vh.Rand, f Fixture, want func(gopacket.Layer) bool) ([]byte, string) {
	data := make([]byte, len(f.Data))
	copy(data, f.Data)
	var p gopacket.Packet
	func() {
		defer func() { recover() }()
		p = gopacket.NewPacket(data, f.First, gopacket.DecodeOptions{NoCopy: true, DecodeStreamsAsDatagrams: true})
		p.Layers()
	}()
	if p == nil {
		return nil, ""
	}
	type cand struct {
		end  int
		name string
	}
	var cs []cand
	for _, l := range p.Layers() {
		c := l.LayerContents()
		if len(c) == 0 || cap(c) > cap(data) || !want(l) {
			continue
		}
		off := cap(data) - cap(c)
		if off >= 0 && off+len(c) <= len(data) {
			cs = append(cs, cand{off + len(c), l.LayerType().String()})
		}
	}
	if len(cs) == 0 {
		return nil, ""
	}
	c := cs[r.Intn(len(cs))]
	return append([]byte(nil), data[:c.end]...), "hdronly(" + c.name + ")"
}

// LayerAware mutates inside the header of one decoded layer of a fixture (so that deep layers get as
// much attention as the link layer), with protocol-specific shapes for name compression pointers,
// option lists and length fields.  Returns nil if the fixture has no usable layer.
func LayerAware(r *vh.Rand, f Fixture) ([]byte, string) {
	// exact capacity: NewPacket clips a NoCopy buffer to its length, and offsets below are computed from capacities
	data := make([]byte, len(f.Data))
	copy(data, f.Data)
	var p gopacket.Packet
	func() {
		defer func() { recover() }()
		p = gopacket.NewPacket(data, f.First, gopacket.DecodeOptions{NoCopy: true, DecodeStreamsAsDatagrams: true})
		p.Layers()
	}()
	if p == nil || len(p.Layers()) == 0 {
		return nil, ""
	}
	ls := p.Layers()
	l := ls[r.Intn(len(ls))]
	// layers with rich internal structure get extra attention when present
	for _, x := range ls {
		switch x.LayerType().String() {
		case "DNS", "TCP":
			if r.Intn(3) == 0 {
				l = x
			}
		}
	}
	c := l.LayerContents()
	if len(c) == 0 || cap(c) > cap(data) {
		return nil, ""
	}
	off := cap(data) - cap(c) // contents is a subslice of data (NoCopy)
	if off < 0 || off+len(c) > len(data) {
		return nil, ""
	}
	out := append([]byte(nil), data...)
	name := l.LayerType().String()
	switch {
	case name == "DNS" && len(c) > 14:
		// compression pointers: to itself, to the header end, to another pointer
		q := 12 + r.Intn(len(c)-13)
		if r.Intn(3) == 0 {
			q = 12 // the first name always starts here
		}
		tgt := []int{q, q, 12, q - 2, q + 2, len(c) - 1, 0}[r.Intn(7)]
		if tgt < 0 {
			tgt = 0
		}
		out[off+q] = 0xC0 | byte(tgt>>8)
		out[off+q+1] = byte(tgt)
		return out, "dnsptr@" + strconv.Itoa(q) + "->" + strconv.Itoa(tgt)
	case name == "TCP" && len(c) >= 20:
		// option list shapes: kind, length at the boundary values
		hl := int(c[12]>>4) * 4
		if r.Intn(3) == 0 || hl <= 20 {
			out[off+12] = byte(5+r.Intn(11))<<4 | c[12]&0x0f
			return out, "tcp-dataoffset"
		}
		q := 20 + r.Intn(hl-20)
		if off+q+1 < len(out) {
			out[off+q] = []byte{30, 30, 2, 3, 4, 5, 8, 0, 1, 254, 34, 69}[r.Intn(12)]
			out[off+q+1] = []byte{0, 1, 2, 3, 4, 8, 12, 20, 40, 255}[r.Intn(10)]
			if off+q+2 < len(out) && r.Bool() {
				out[off+q+2] = byte(r.Intn(16) << 4)
			}
		}
		return out, "tcpopt@" + strconv.Itoa(q)
	}
	// generic: a boundary value somewhere in this layer's header
	q := r.Intn(len(c))
	switch r.Intn(4) {
	case 0:
		out[off+q] = []byte{0, 1, 0xff, 0x7f, 0x80, 0xfe, 4, 5, 6, 15, 16}[r.Intn(11)]
	case 1:
		out[off+q] ^= 1 << uint(r.Intn(8))
	case 2:
		if q+1 < len(c) {
			v := []uint16{0, 1, 0xffff, uint16(len(c)), uint16(len(c) - 1), uint16(len(c) + 1), uint16(len(data) - off), 8, 20, 40}[r.Intn(10)]
			out[off+q], out[off+q+1] = byte(v>>8), byte(v)
		}
	case 3:
		// truncate the packet inside this layer
		return out[:off+q], name + "-trunc@" + strconv.Itoa(q)
	}
	return out, name + "@" + strconv.Itoa(q)
}

// Case is one derived input: bytes to be decoded starting at layer type First.
type Case struct {
	Name  string
	Data  []byte
	First gopacket.LayerType
}

// TrailingLengthCases enumerates, for every fixture and every layer of it taken as the start of the data, the
// length fields that cover exactly the rest of the data - a 16-bit big-endian or 8-bit field whose value equals the
// number of bytes behind it (a trailing TLV / record), the bytes from the field on, or the whole data - and
// changes each one consistently one level up and inconsistently one level down: the field grows by k in 1..3 and
// k octets are appended, or it shrinks by 1.  The layout is inferred from the pristine bytes, not from the decoders.
func TrailingLengthCases(fx []Fixture, maxPerStart int) []Case {
	var out []Case
	seen := map[string]bool{}
	for _, f := range fx {
		var starts []Case
		func() {
			defer func() { recover() }()
			starts = append(starts, Case{f.Name, f.Data, f.First})
			p := gopacket.NewPacket(f.Data, f.First, gopacket.DecodeOptions{DecodeStreamsAsDatagrams: true})
			ls := p.Layers()
			for j := 0; j+1 < len(ls); j++ {
				if pl := ls[j].LayerPayload(); len(pl) > 0 && ls[j+1].LayerType() != gopacket.LayerTypeDecodeFailure {
					starts = append(starts, Case{f.Name + "@layer" + strconv.Itoa(j+1), pl, ls[j+1].LayerType()})
				}
			}
		}()
		for _, s := range starts {
			d := s.Data
			if len(d) < 3 || len(d) > 2000 {
				continue
			}
			key := s.First.String() + string(d)
			if seen[key] {
				continue
			}
			seen[key] = true
			n := 0
			for p := 0; p < len(d)-1 && n < maxPerStart; p++ {
				for _, w := range []int{2, 1} {
					if p+w > len(d) {
						continue
					}
					v := int(d[p])
					if w == 2 {
						v = int(d[p])<<8 | int(d[p+1])
					}
					if v < 2 || (v != len(d)-p-w && v != len(d)-p && v != len(d)) {
						continue
					}
					for _, k := range []int{1, 2, 3, -1} {
						nv := v + k
						if (w == 1 && nv > 255) || nv > 65535 {
							continue
						}
						c := append([]byte(nil), d...)
						if w == 2 {
							c[p], c[p+1] = byte(nv>>8), byte(nv)
						} else {
							c[p] = byte(nv)
						}
						for i := 0; i < k; i++ {
							c = append(c, byte(0xA0+i))
						}
						c = c[:len(c):len(c)]
						out = append(out, Case{s.Name + "~len" + strconv.Itoa(w*8) + "@" + strconv.Itoa(p) + strconv.Itoa(k), c, s.First})
					}
					n++
				}
			}
		}
	}
	return out
}

// HeaderEndCases enumerates, for every fixture and every layer of it, the packet cut right behind that layer's header
// (the layer has an empty payload and its last octets are the last octets of the data) and, on top of that, each of
// the last four octets of the header set to 0x00, 0x01 and 0xff in turn: option lists, padding and length octets
// that sit at the very end of the data.  Starts at the fixture's first layer and at the layer itself.
func HeaderEndCases(fx []Fixture) []Case {
	var out []Case
	seen := map[string]bool{}
	add := func(name string, d []byte, first gopacket.LayerType) {
		key := first.String() + string(d)
		if seen[key] || len(d) == 0 || len(d) > 2000 {
			return
		}
		seen[key] = true
		out = append(out, Case{name, d[:len(d):len(d)], first})
	}
	for _, f := range fx {
		data := make([]byte, len(f.Data))
		copy(data, f.Data)
		var p gopacket.Packet
		func() {
			defer func() { recover() }()
			p = gopacket.NewPacket(data, f.First, gopacket.DecodeOptions{NoCopy: true, DecodeStreamsAsDatagrams: true})
			p.Layers()
		}()
		if p == nil {
			continue
		}
		for j, l := range p.Layers() {
			c := l.LayerContents()
			if len(c) == 0 || cap(c) > cap(data) || l.LayerType() == gopacket.LayerTypeDecodeFailure || l.LayerType() == gopacket.LayerTypePayload {
				continue
			}
			off := cap(data) - cap(c)
			if off < 0 || off+len(c) > len(data) {
				continue
			}
			end := off + len(c)
			for _, start := range []struct {
				at    int
				first gopacket.LayerType
				tag   string
			}{{0, f.First, ""}, {off, l.LayerType(), "@layer" + strconv.Itoa(j)}} {
				base := append([]byte(nil), data[start.at:end]...)
				name := f.Name + start.tag + "~hdrend(" + l.LayerType().String() + ")"
				add(name, base, start.first)
				for k := 1; k <= 4 && k <= len(c); k++ {
					for _, v := range []byte{0x00, 0x01, 0xff} {
						if base[len(base)-k] == v {
							continue
						}
						d := append([]byte(nil), base...)
						d[len(d)-k] = v
						add(name+"-"+strconv.Itoa(k)+"="+strconv.Itoa(int(v)), d, start.first)
					}
				}
			}
		}
	}
	return out
}

// OptionTailCases enumerates option lists whose LAST option ends exactly at the end of the data (no payload, capacity
// == length), for the two fixed-header layers that carry a kind/length option list behind a header-length field
// (TCP data offset, IPv4 IHL).  The option area is n octets (NOP padding in front so that the header stays a multiple
// of 4), the option is {kind, length = n', b3, b4, 0xB0...}: every kind with b3 = b4 in {0x00, 0x01, 0xff}, and - for
// the TCP option kinds that carry a subtype nibble and a flag octet (30 MPTCP) - every subtype x low nibble {0,1} x
// flag octet 0..63, 0x80, 0x81, 0xff.  A validator and an extraction that disagree for one conjunction of subtype and
// flag bits read past the end of such a segment.  The layout is the protocol's (RFC 793 / 791 / 8684), not the decoders'.
func OptionTailCases() []Case {
	var out []Case
	tcp := []byte{0x04, 0xd2, 0x00, 0x50, 0, 0, 0, 1, 0, 0, 0, 2, 0x50, 0x11, 0x10, 0x00, 0, 0, 0, 0}
	ip4 := []byte{0x45, 0, 0, 20, 0, 1, 0, 0, 64, 6, 0, 0, 10, 0, 0, 1, 10, 0, 0, 2}
	build := func(base []byte, first gopacket.LayerType, n int, opt []byte) []byte {
		area := (n + 3) / 4 * 4
		d := make([]byte, 0, len(base)+area)
		d = append(d, base...)
		for i := 0; i < area-n; i++ {
			d = append(d, 1) // NOP in both option spaces
		}
		d = append(d, opt...)
		hl := byte(len(d) / 4)
		if first == layers.LayerTypeTCP {
			d[12] = hl << 4
		} else {
			d[0] = 0x40 | hl
			d[2], d[3] = byte(len(d)>>8), byte(len(d))
		}
		return d[:len(d):len(d)]
	}
	mk := func(kind byte, n int, b3, b4 byte) []byte {
		o := make([]byte, n)
		o[0], o[1] = kind, byte(n)
		if n > 2 {
			o[2] = b3
		}
		if n > 3 {
			o[3] = b4
		}
		for i := 4; i < n; i++ {
			o[i] = byte(0xB0 + i)
		}
		return o
	}
	for n := 2; n <= 40; n++ {
		for kind := 2; kind < 256; kind++ {
			for _, v := range []byte{0x00, 0x01, 0xff} {
				o := mk(byte(kind), n, v, v)
				out = append(out, Case{"opttail(TCP)k" + strconv.Itoa(kind) + "n" + strconv.Itoa(n) + "v" + strconv.Itoa(int(v)), build(tcp, layers.LayerTypeTCP, n, o), layers.LayerTypeTCP})
				out = append(out, Case{"opttail(IPv4)k" + strconv.Itoa(kind) + "n" + strconv.Itoa(n) + "v" + strconv.Itoa(int(v)), build(ip4, layers.LayerTypeIPv4, n, o), layers.LayerTypeIPv4})
			}
		}
		if n < 3 {
			continue
		}
		for sub := 0; sub < 16; sub++ {
			for low := 0; low < 2; low++ {
				fl := make([]int, 0, 67)
				for f := 0; f < 64; f++ {
					fl = append(fl, f)
				}
				fl = append(fl, 0x80, 0x81, 0xff)
				for _, f := range fl {
					o := mk(30, n, byte(sub<<4|low), byte(f))
					out = append(out, Case{"opttail(TCP)k30n" + strconv.Itoa(n) + "s" + strconv.Itoa(sub) + "." + strconv.Itoa(low) + "f" + strconv.Itoa(f), build(tcp, layers.LayerTypeTCP, n, o), layers.LayerTypeTCP})
				}
			}
		}
	}
	return out
}
