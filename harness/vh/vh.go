// Package vh holds helpers shared by the conformance drivers: ndjson trace
// output, deterministic PRNG, panic-site extraction and watchdogs.
package vh

import (
	"bufio"
	"bytes"
	"encoding/json"
	"fmt"
	"os"
	"regexp"
	"runtime"
	"strings"
	"sync"
	"time"
)

// Trace is an ndjson writer (one event per line).
type Trace struct {
	mu sync.Mutex
	f  *os.File
	w  *bufio.Writer
	N  int
}

func NewTrace(path string) *Trace {
	f, err := os.Create(path)
	if err != nil {
		fmt.Fprintln(os.Stderr, "cannot create trace:", err)
		os.Exit(2)
	}
	return &Trace{f: f, w: bufio.NewWriterSize(f, 1<<20)}
}

type M = map[string]interface{}

func (t *Trace) Emit(ev M) {
	b, err := json.Marshal(ev)
	if err != nil {
		fmt.Fprintln(os.Stderr, "trace marshal:", err)
		os.Exit(2)
	}
	// TLC's Json module rejects null: every null here is a nil slice
	if bytes.Contains(b, []byte(":null")) {
		b = bytes.ReplaceAll(b, []byte(":null"), []byte(":[]"))
	}
	t.mu.Lock()
	t.w.Write(b)
	t.w.WriteByte('\n')
	t.N++
	t.mu.Unlock()
}

// EmitBlock writes a group of events contiguously (scenarios that ran concurrently must not interleave).
func (t *Trace) EmitBlock(evs []M) {
	var out [][]byte
	for _, ev := range evs {
		b, err := json.Marshal(ev)
		if err != nil {
			fmt.Fprintln(os.Stderr, "trace marshal:", err)
			os.Exit(2)
		}
		if bytes.Contains(b, []byte(":null")) {
			b = bytes.ReplaceAll(b, []byte(":null"), []byte(":[]"))
		}
		out = append(out, b)
	}
	t.mu.Lock()
	for _, b := range out {
		t.w.Write(b)
		t.w.WriteByte('\n')
		t.N++
	}
	t.mu.Unlock()
}

func (t *Trace) Close() {
	t.mu.Lock()
	defer t.mu.Unlock()
	t.w.Flush()
	t.f.Close()
}

// Ints converts a byte slice to []int so JSON carries numbers, not base64.
func Ints(b []byte) []int {
	r := make([]int, len(b))
	for i, x := range b {
		r[i] = int(x)
	}
	return r
}

// Rand is a small deterministic PRNG (splitmix64).
type Rand struct{ s uint64 }

// NewRand: the seed is mixed first, so that neighbouring seeds give unrelated streams (a plain
// splitmix state of seed*gamma would make seed k+1 the stream of seed k shifted by one draw).
func NewRand(seed uint64) *Rand {
	z := (seed + 0x1234567) * 0xD6E8FEB86659FD93
	z = (z ^ (z >> 32)) * 0xD6E8FEB86659FD93
	z ^= z >> 32
	return &Rand{s: z}
}
func (r *Rand) U64() uint64 {
	r.s += 0x9E3779B97F4A7C15
	z := r.s
	z = (z ^ (z >> 30)) * 0xBF58476D1CE4E5B9
	z = (z ^ (z >> 27)) * 0x94D049BB133111EB
	return z ^ (z >> 31)
}
func (r *Rand) Intn(n int) int {
	if n <= 0 {
		return 0
	}
	return int(r.U64() % uint64(n))
}
func (r *Rand) Bool() bool { return r.U64()&1 == 1 }
func (r *Rand) Bytes(n int) []byte {
	b := make([]byte, n)
	for i := range b {
		b[i] = byte(r.U64())
	}
	return b
}

var frameRe = regexp.MustCompile(`(?m)^(github\.com/gopacket/gopacket\S*?)\([^()]*\)\n\s+(\S+):(\d+)`)

// PanicSite returns "function|file:line" of the innermost gopacket frame of the
// current stack (call from a deferred recover handler).
func PanicSite() string {
	buf := make([]byte, 1<<16)
	n := runtime.Stack(buf, false)
	return SiteFromStack(string(buf[:n]))
}

func SiteFromStack(st string) string {
	for _, m := range frameRe.FindAllStringSubmatch(st, -1) {
		fn := m[1]
		if strings.Contains(fn, "verif/harness") {
			continue
		}
		file := m[2]
		if i := strings.LastIndex(file, "/gopacket/"); i >= 0 {
			file = file[i+len("/gopacket/"):]
		}
		if i := strings.Index(file, "/repo/"); i >= 0 {
			file = file[i+len("/repo/"):]
		}
		if alt := os.Getenv("VERIF_REPO"); alt != "" && strings.HasPrefix(file, alt+"/") {
			file = file[len(alt)+1:]
		}
		fn = strings.TrimPrefix(fn, "github.com/gopacket/gopacket")
		fn = strings.TrimPrefix(fn, "/")
		return fn + "|" + file + ":" + m[3]
	}
	return "unknown"
}

// Guard runs f under recover; returns ("", false) on normal return or
// (panic text + site, true).
func Guard(f func()) (msg string, site string, panicked bool) {
	defer func() {
		if r := recover(); r != nil {
			panicked = true
			msg = fmt.Sprint(r)
			site = PanicSite()
		}
	}()
	f()
	return
}

// WithTimeout runs f in a goroutine; reports false if it did not finish in d.
func WithTimeout(d time.Duration, f func()) bool {
	done := make(chan struct{})
	go func() { defer close(done); f() }()
	select {
	case <-done:
		return true
	case <-time.After(d):
		return false
	}
}

func Fatal(a ...interface{}) {
	fmt.Fprintln(os.Stderr, a...)
	os.Exit(2)
}

// SiteSig turns "func|file:line" into "func|file|<trimmed source text of that line>" so that a
// known-finding signature survives line shifts.  repo is the root of the gopacket tree.
func SiteSig(repo, site string) string {
	i := strings.LastIndex(site, "|")
	if i < 0 {
		return site + "||"
	}
	fn, loc := site[:i], site[i+1:]
	j := strings.LastIndex(loc, ":")
	if j < 0 {
		return fn + "|" + loc + "|"
	}
	file, lineS := loc[:j], loc[j+1:]
	var line int
	fmt.Sscanf(lineS, "%d", &line)
	b, err := os.ReadFile(repo + "/" + file)
	if err != nil {
		return fn + "|" + file + "|"
	}
	ls := strings.Split(string(b), "\n")
	if line < 1 || line > len(ls) {
		return fn + "|" + file + "|"
	}
	return fn + "|" + file + "|" + strings.TrimSpace(ls[line-1])
}
