package vh

import (
	"fmt"
	"hash/fnv"
	"reflect"
	"sort"
)

// Digest renders a value canonically by reflection over EXPORTED fields only (nil slices/maps are
// equal to empty ones, pointers are followed, cycles cut at depth 12) and returns a 64-bit hash as
// hex.  It does not use the library's own String methods, which are themselves under test.
func Digest(v interface{}) string {
	h := fnv.New64a()
	render(reflect.ValueOf(v), 0, func(s string) { h.Write([]byte(s)) })
	return fmt.Sprintf("%016x", h.Sum64())
}

// Render returns the canonical text itself (for diagnostics).
func Render(v interface{}) string {
	var out []byte
	render(reflect.ValueOf(v), 0, func(s string) { out = append(out, s...) })
	return string(out)
}

func render(v reflect.Value, depth int, w func(string)) {
	if depth > 12 {
		w("<deep>")
		return
	}
	if !v.IsValid() {
		w("nil")
		return
	}
	switch v.Kind() {
	case reflect.Ptr, reflect.Interface:
		if v.IsNil() {
			w("nil")
			return
		}
		render(v.Elem(), depth+1, w)
	case reflect.Struct:
		t := v.Type()
		w(t.Name())
		w("{")
		for i := 0; i < v.NumField(); i++ {
			f := t.Field(i)
			if f.PkgPath != "" && !f.Anonymous { // unexported
				continue
			}
			if f.PkgPath != "" && f.Anonymous {
				// unexported embedded struct: still descend into exported fields (e.g. tcpipchecksum holds no exported)
				if v.Field(i).Kind() != reflect.Struct {
					continue
				}
			}
			w(f.Name)
			w(":")
			render(v.Field(i), depth+1, w)
			w(",")
		}
		w("}")
	case reflect.Slice, reflect.Array:
		if v.Kind() == reflect.Slice && v.Type().Elem().Kind() == reflect.Uint8 {
			w(fmt.Sprintf("%x", v.Bytes()))
			return
		}
		w("[")
		for i := 0; i < v.Len(); i++ {
			render(v.Index(i), depth+1, w)
			w(",")
		}
		w("]")
	case reflect.Map:
		keys := v.MapKeys()
		strs := make([]string, len(keys))
		idx := map[string]reflect.Value{}
		for i, k := range keys {
			strs[i] = fmt.Sprintf("%v", k.Interface())
			idx[strs[i]] = k
		}
		sort.Strings(strs)
		w("map[")
		for _, s := range strs {
			w(s)
			w(":")
			render(v.MapIndex(idx[s]), depth+1, w)
			w(",")
		}
		w("]")
	case reflect.Func, reflect.Chan, reflect.UnsafePointer:
		w("<fn>")
	case reflect.Bool:
		w(fmt.Sprintf("%v", v.Bool()))
	case reflect.Int, reflect.Int8, reflect.Int16, reflect.Int32, reflect.Int64:
		w(fmt.Sprintf("%d", v.Int()))
	case reflect.Uint, reflect.Uint8, reflect.Uint16, reflect.Uint32, reflect.Uint64, reflect.Uintptr:
		w(fmt.Sprintf("%d", v.Uint()))
	case reflect.Float32, reflect.Float64:
		w(fmt.Sprintf("%g", v.Float()))
	case reflect.String:
		w(fmt.Sprintf("%q", v.String()))
	case reflect.Complex64, reflect.Complex128:
		w(fmt.Sprintf("%v", v.Complex()))
	default:
		w("<?>")
	}
}
