// Package implcmp is shared by the model -> implementation drivers of the two assemblers
// (cmd/reasm_impl, cmd/tcpasm_impl): canonical rendering of predicted (model units) and observed
// (bytes) events and their comparison.  The comparison is pure equality; it yields "drift" between
// an Impl-layer TLA+ model and the code and never decides a property.
package implcmp

import (
	"fmt"
	"strings"

	"verif/harness/vh"
)

// Drift describes the first operation of a behaviour whose observed events differ from the predicted ones.
type Drift struct {
	Sc        int         `json:"sc"`
	Cfg       interface{} `json:"cfg"`
	Ops       string      `json:"ops"`
	OpIndex   int         `json:"op_index"`
	Kind      string      `json:"kind"` // class of the first differing event
	Predicted []string    `json:"predicted"`
	Observed  []string    `json:"observed"`
}

func scaleRuns(v interface{}, s int) string {
	var parts []string
	if arr, ok := v.([]interface{}); ok {
		for _, r := range arr {
			rr := r.([]interface{})
			parts = append(parts, fmt.Sprintf("%d-%d", Num(rr[0])*s, Num(rr[1])*s))
		}
	} else if arr, ok := v.([][2]int); ok {
		for _, r := range arr {
			parts = append(parts, fmt.Sprintf("%d-%d", r[0]*s, r[1]*s))
		}
	}
	return strings.Join(parts, ",")
}

// Num reads a JSON or Go integer.
func Num(v interface{}) int {
	switch x := v.(type) {
	case float64:
		return int(x)
	case int:
		return x
	case int64:
		return int(x)
	}
	return -999999
}

func pos(v interface{}, s int) int { // lengths and offsets scale, the marker -1 does not
	n := Num(v)
	if n > 0 {
		return n * s
	}
	return n
}

// Canon renders an event; scale = 1 for observed events (bytes), = bytes per model unit for predicted ones.
func Canon(e vh.M, s int) string {
	switch e["op"] {
	case "new":
		return fmt.Sprintf("new c=%d", Num(e["c"]))
	case "seg":
		return fmt.Sprintf("seg c=%d d=%d lo=%d hi=%d syn=%v fin=%v rst=%v force=%v ts=%d", Num(e["c"]), Num(e["d"]), pos(e["lo"], s), pos(e["hi"], s),
			e["syn"], e["fin"], e["rst"], e["force"], Num(e["ts"]))
	case "sg":
		return fmt.Sprintf("sg c=%d d=%d saved=[%s] new=[%s] skip=%d start=%v end=%v keep=%d total=%d", Num(e["c"]), Num(e["d"]), scaleRuns(e["srun"], s),
			scaleRuns(e["nrun"], s), pos(e["skip"], s), e["start"], e["end"], pos(e["keep"], s), pos(e["total"], s))
	case "complete":
		return fmt.Sprintf("complete c=%d remove=%v", Num(e["c"]), e["remove"])
	case "flushb", "flushe":
		return fmt.Sprintf("%s kind=%v t=%d", e["op"], e["kind"], Num(e["t"]))
	case "api":
		return fmt.Sprintf("api %v t=%d pages=%d conns=%d maxq=%d oldest=%d pktpages=%d", e["call"], Num(e["t"]), Num(e["pages"]),
			Num(e["conns"]), Num(e["maxq"]), Num(e["oldest"]), Num(e["pktpages"]))
	case "panic":
		return "panic"
	}
	return fmt.Sprintf("?%v", e["op"])
}

// Compare returns nil if the events of one operation agree, else (predicted, observed, kind).
func Compare(pred, obs []vh.M, scale int) (ps, os []string, kind string, same bool) {
	for _, e := range pred {
		ps = append(ps, Canon(e, scale))
	}
	for _, e := range obs {
		os = append(os, Canon(e, 1))
	}
	if strings.Join(ps, "|") == strings.Join(os, "|") {
		return ps, os, "", true
	}
	kind = "length"
	for j := 0; j < len(ps) && j < len(os); j++ {
		if ps[j] != os[j] {
			kind = strings.SplitN(os[j], " ", 2)[0]
			break
		}
	}
	return ps, os, kind, false
}
