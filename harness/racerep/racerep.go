// Package racerep runs the concurrent phases of a driver in a child process of the SAME (-race built)
// binary and turns the race detector's "WARNING: DATA RACE" reports on the child's stderr into events for
// the TLA+ trace modules, which have no transition for them.
//
// Protocol: the child writes "VERIF-SC <n>\n" to stderr at the start of every scenario, while no worker
// goroutine is running; the race runtime writes its reports to the same descriptor at the moment of the
// second access, so each report is attributed to the scenario whose marker precedes it.
package racerep

import (
	"bytes"
	"fmt"
	"os"
	"os/exec"
	"regexp"
	"sort"
	"strconv"
	"strings"
	"sync/atomic"

	"verif/harness/corpus"
	"verif/harness/vh"
)

type Access struct {
	Kind string // "Write", "Previous read", ...
	Site string // fn|file|source text of the innermost gopacket frame ("" if none)
	Top  string // innermost frame of the stack (function name)
}

type Report struct {
	Sc   int
	A, B Access
}

// Writer is the site of the writing access (of the first one if both write; a race always has one).
func (r Report) Writer() string {
	for _, a := range []Access{r.A, r.B} {
		if strings.Contains(strings.ToLower(a.Kind), "write") && a.Site != "" {
			return a.Site
		}
	}
	if r.A.Site != "" {
		return r.A.Site
	}
	return r.B.Site
}

// Sig is the order-independent signature of the two sites.
func (r Report) Sig() string {
	s := []string{r.A.Site, r.B.Site}
	sort.Strings(s)
	return s[0] + " ~ " + s[1]
}

var (
	hdrRe   = regexp.MustCompile(`^(Write|Read|Previous write|Previous read|Atomic write|Atomic read|Previous atomic write|Previous atomic read) at 0x[0-9a-f]+ by `)
	fnRe    = regexp.MustCompile(`^  (\S.*)\(\)$`)
	locRe   = regexp.MustCompile(`^      (\S+):(\d+)( \+0x[0-9a-f]+)?$`)
	markRe  = regexp.MustCompile(`^VERIF-SC (\d+)$`)
	libPref = "github.com/gopacket/gopacket"
)

func relFile(file string) string {
	if alt := os.Getenv("VERIF_REPO"); alt != "" && strings.HasPrefix(file, alt+"/") {
		return file[len(alt)+1:]
	}
	if strings.HasPrefix(file, "/repo/") {
		return file[len("/repo/"):]
	}
	if i := strings.LastIndex(file, "/gopacket/"); i >= 0 {
		return file[i+len("/gopacket/"):]
	}
	return file
}

// Parse extracts the reports from the child's stderr.
func Parse(stderr string) []Report {
	var out []Report
	sc := 0
	lines := strings.Split(stderr, "\n")
	for i := 0; i < len(lines); i++ {
		if m := markRe.FindStringSubmatch(lines[i]); m != nil {
			sc, _ = strconv.Atoi(m[1])
			continue
		}
		if lines[i] != "WARNING: DATA RACE" {
			continue
		}
		rep := Report{Sc: sc}
		var accs []Access
		j := i + 1
		for ; j < len(lines) && !strings.HasPrefix(lines[j], "=================="); j++ {
			if m := markRe.FindStringSubmatch(lines[j]); m != nil { // cannot happen (markers are written while workers are joined)
				sc, _ = strconv.Atoi(m[1])
				continue
			}
			h := hdrRe.FindStringSubmatch(lines[j])
			if h == nil {
				continue
			}
			a := Access{Kind: h[1]}
			for k := j + 1; k+1 < len(lines) && lines[k] != ""; k += 2 {
				f := fnRe.FindStringSubmatch(lines[k])
				l := locRe.FindStringSubmatch(lines[k+1])
				if f == nil || l == nil {
					break
				}
				if a.Top == "" {
					a.Top = f[1]
				}
				if a.Site == "" && strings.HasPrefix(f[1], libPref) {
					fn := strings.TrimPrefix(strings.TrimPrefix(f[1], libPref), "/")
					a.Site = vh.SiteSig(corpus.Repo(), fn+"|"+relFile(l[1])+":"+l[2])
				}
			}
			accs = append(accs, a)
		}
		for len(accs) < 2 {
			accs = append(accs, Access{})
		}
		rep.A, rep.B = accs[0], accs[1]
		out = append(out, rep)
		i = j
	}
	return out
}

// Events converts reports to trace events: a scenario marker of the trace module (so that a trace module that is skipping after an
// earlier rejection looks again) followed by the race event.  extra is merged into both.
func Events(reps []Report, extra vh.M, markerOp string) []vh.M {
	var evs []vh.M
	for _, r := range reps {
		m := vh.M{"op": markerOp, "sc": r.Sc, "sig": "", "kind": "race-report"}
		e := vh.M{"op": "race", "sc": r.Sc, "sig": r.Writer(), "writer": r.Writer(), "site": r.Sig(),
			"a": r.A.Kind + " in " + r.A.Top, "b": r.B.Kind + " in " + r.B.Top,
			"inlib": r.A.Site != "" || r.B.Site != ""}
		for k, v := range extra {
			m[k] = v
			e[k] = v
		}
		evs = append(evs, m, e)
	}
	return evs
}

// Mark announces the scenario about to run (call only while no worker goroutine is running).
func Mark(sc int) { os.Stderr.WriteString("VERIF-SC " + strconv.Itoa(sc) + "\n") }

type ChildResult struct {
	Reports  []Report
	ExitCode int
	Stdout   string
	Tail     string // last lines of stderr that are neither markers nor race reports (crash diagnostics)
}

// RunChild re-executes this binary with the given arguments plus "-child", collects its stderr and parses
// the race reports.  The race detector is told to keep going after a report and not to alter the exit code.
func RunChild(args []string) ChildResult {
	self, err := os.Executable()
	if err != nil {
		vh.Fatal("cannot find own executable:", err)
	}
	cmd := exec.Command(self, append(append([]string{}, args...), "-child")...)
	cmd.Env = append(os.Environ(), "GORACE=halt_on_error=0 exitcode=0 atexit_sleep_ms=0 history_size=3")
	var eb, ob bytes.Buffer
	cmd.Stderr = &eb
	cmd.Stdout = &ob
	err = cmd.Run()
	res := ChildResult{Stdout: ob.String()}
	if err != nil {
		if ee, ok := err.(*exec.ExitError); ok {
			res.ExitCode = ee.ExitCode()
		} else {
			vh.Fatal("cannot run child:", err)
		}
	}
	st := eb.String()
	res.Reports = Parse(st)
	var tail []string
	in := false
	for _, l := range strings.Split(st, "\n") {
		if strings.HasPrefix(l, "==================") {
			in = !in
			continue
		}
		if in || markRe.MatchString(l) || l == "" {
			continue
		}
		tail = append(tail, l)
	}
	if len(tail) > 40 {
		tail = tail[len(tail)-40:]
	}
	res.Tail = strings.Join(tail, "\n")
	return res
}

// CrashSig summarises an abnormal child exit.
func CrashSig(res ChildResult) string {
	for _, l := range strings.Split(res.Tail, "\n") {
		if strings.HasPrefix(l, "fatal error") || strings.HasPrefix(l, "panic:") || strings.Contains(l, "out of memory") {
			return l
		}
	}
	return fmt.Sprintf("exit %d", res.ExitCode)
}

// Ticks are per-goroutine progress counters for a watchdog.  Each worker increments ONLY its own counter, so the
// counters create no happens-before edge between workers (a shared atomic would, and would hide races from the
// detector); the watchdog merely reads them.
type Ticks struct {
	c [64]struct {
		n atomic.Int64
		_ [56]byte
	}
}

func (t *Ticks) Tick(worker int) { t.c[worker&63].n.Add(1) }
func (t *Ticks) Sum() int64 {
	var s int64
	for i := range t.c {
		s += t.c[i].n.Load()
	}
	return s
}
