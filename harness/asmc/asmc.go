// Package asmc holds what the two assembler drivers share: scenario format, per-scenario
// configuration, stream contents with offset inference, and the random scenario generator.
package asmc

import (
	"bytes"
	"encoding/json"

	"verif/harness/vh"
)

// Op is one scenario operation.
type Op struct {
	Kind     string // seg | flushall | flusholder
	C, D     int
	Lo, Hi   int
	Syn, Fin bool
	Rst      bool
	T        int
}

type Scenario struct {
	Ops []Op
	Cfg Cfg
}

type Cfg struct {
	Limit  int    // MaxBufferedPagesPerConnection (0 = none)
	Keep   int    // -1 none, 0 KeepFrom(0), 1 KeepFrom(1), 2 KeepFrom(total/2), 3 alternate
	Force  bool   // Accept forces a start on the first non-SYN packet of a direction
	Remove bool   // what ReassemblyComplete answers
	Scale  int    // bytes per model unit
	ISN    uint32 // initial sequence number of direction 0 (direction 1 uses ISN ^ 0x5a5a5a5a)
}

// ParseTLC parses one exported behaviour: [["seg",d,lo,hi,syn,fin], ["flushall"], ["flusholder",t]]
func ParseTLC(line []byte) ([]Op, error) {
	var raw [][]interface{}
	if err := json.Unmarshal(line, &raw); err != nil {
		return nil, err
	}
	var ops []Op
	for _, r := range raw {
		k := r[0].(string)
		switch k {
		case "seg":
			o := Op{Kind: "seg", C: 1, D: int(r[1].(float64)), Lo: int(r[2].(float64)), Hi: int(r[3].(float64)),
				Syn: r[4].(bool), Fin: r[5].(bool)}
			if len(r) > 6 {
				o.C = int(r[6].(float64))
			}
			ops = append(ops, o)
		case "rst":
			p := int(r[2].(float64))
			ops = append(ops, Op{Kind: "seg", C: 1, D: int(r[1].(float64)), Lo: p, Hi: p, Rst: true})
		case "flushall":
			ops = append(ops, Op{Kind: "flushall"})
		case "flusholder":
			ops = append(ops, Op{Kind: "flusholder", T: int(r[1].(float64))})
		}
	}
	return ops, nil
}

var isns = []uint32{0, 1, 0x7fffffff, 0x80000000, 0xfffffff0, 0xfffffffc, 0xfffffffd, 0xfffffffe, 0xffffffff, 0xbfffffff, 0xc0000000, 0x3fffffff, 12345678}

// CfgFor derives the configuration of scenario number n deterministically (so that every
// configuration dimension is crossed with the exported behaviours).
func CfgFor(n int, seed uint64, streamUnits int) Cfg {
	r := vh.NewRand(seed*1000003 + uint64(n))
	c := Cfg{Limit: []int{0, 0, 1, 2, 3}[r.Intn(5)], Keep: []int{-1, -1, 0, 1, 2, 3}[r.Intn(6)], Force: r.Intn(3) == 0,
		Remove: r.Intn(5) != 0, Scale: 1}
	switch r.Intn(6) {
	case 0:
		c.Scale = 1000 // 2 units > one 1900-byte page
	case 1:
		c.Scale = 1900
	case 2:
		c.Scale = 7
	}
	c.ISN = isns[r.Intn(len(isns))]
	if r.Intn(3) == 0 { // place the wrap inside the stream
		span := uint32(streamUnits * c.Scale)
		if span > 0 {
			c.ISN = 0xffffffff - uint32(r.Intn(int(span)+1))
		}
	}
	return c
}

// Content of one direction of one connection.
type Content struct {
	B      []byte
	unique bool
}

func NewContent(n int, salt uint64) *Content {
	c := &Content{B: make([]byte, n)}
	if n <= 250 {
		c.unique = true
		for i := range c.B {
			c.B[i] = byte(i + 1)
		}
		return c
	}
	r := vh.NewRand(salt + 77)
	for i := range c.B {
		c.B[i] = byte(r.U64())
	}
	return c
}

// Runs maps delivered bytes back to stream offsets: maximal runs [lo,hi) such that
// b[i..] == content[lo..hi).  A byte found nowhere yields a run [-1,-1+n) style marker {-1,-1}.
func (c *Content) Runs(b []byte) [][2]int {
	var runs [][2]int
	i := 0
	for i < len(b) {
		if n := len(runs); n > 0 && runs[n-1][0] >= 0 && runs[n-1][1] < len(c.B) && c.B[runs[n-1][1]] == b[i] {
			runs[n-1][1]++
			i++
			continue
		}
		w := 8
		if c.unique {
			w = 1
		}
		if i+w > len(b) {
			w = len(b) - i
		}
		off := bytes.Index(c.B, b[i:i+w])
		if off < 0 {
			// altered / invented bytes: unknown position, one marker per byte keeps runs > 1
			runs = append(runs, [2]int{-1, -1})
			i++
			continue
		}
		runs = append(runs, [2]int{off, off + w})
		i += w
	}
	return runs
}

// RandomScenario generates a scenario beyond the exhaustive bound: several connections, longer
// streams, duplicates and overlapping retransmissions, flushes in between.
func RandomScenario(r *vh.Rand, units int, nconn int, nops int) []Op {
	var ops []Op
	type hs struct{ synSent bool }
	st := map[[2]int]*hs{}
	for i := 0; i < nops; i++ {
		c := 1 + r.Intn(nconn)
		d := r.Intn(2)
		if r.Intn(4) != 0 {
			d = 0
		}
		k := [2]int{c, d}
		if st[k] == nil {
			st[k] = &hs{}
		}
		switch x := r.Intn(20); {
		case x == 0:
			ops = append(ops, Op{Kind: "flushall"})
		case x == 1 || x == 2:
			ops = append(ops, Op{Kind: "flusholder", T: r.Intn(i + 2)})
		case x <= 4 && !st[k].synSent:
			st[k].synSent = true
			ops = append(ops, Op{Kind: "seg", C: c, D: d, Syn: true})
		default:
			lo := r.Intn(units)
			ln := 1 + r.Intn(minInt(4, units-lo))
			if r.Intn(3) == 0 {
				ln = 1 + r.Intn(units-lo)
			}
			hi := lo + ln
			fin := hi == units && r.Intn(2) == 0
			if r.Intn(20) == 0 { // an (injected) RST at an arbitrary position
				p := r.Intn(units + 1)
				ops = append(ops, Op{Kind: "seg", C: c, D: d, Lo: p, Hi: p, Rst: true})
				continue
			}
			ops = append(ops, Op{Kind: "seg", C: c, D: d, Lo: lo, Hi: hi, Fin: fin})
		}
	}
	ops = append(ops, Op{Kind: "flushall"})
	return ops
}

func minInt(a, b int) int {
	if a < b {
		return a
	}
	return b
}
