// conc_reasm: several reassembly.Assemblers sharing one StreamPool, run (a) under a cooperative
// scheduler replaying interleavings exported by TLC from PoolConc.tla (yield hooks), and (b) free-running
// under -race.  Records callbacks in stream offsets; validated by TLC against Reasm.tla.  C12.
package main

import (
	"runtime"
	"bufio"
	"encoding/json"
	"flag"
	"fmt"
	"os"
	"sync"
	"sync/atomic"
	"time"

	"github.com/gopacket/gopacket"
	"github.com/gopacket/gopacket/layers"
	"github.com/gopacket/gopacket/reassembly"
	"verif/harness/asmc"
	"verif/harness/sched"
	"verif/harness/vh"
)

type pkt struct {
	C, D int
	Fin  bool
	OOO  bool // sent beyond a hole (out of order)
}

type scen struct {
	Progs [][][]interface{} `json:"progs"` // per thread: list of [key, dir, fin]; key 0 = FlushAll
	Sched []int             `json:"sched"`
}

type ctx struct{ ci gopacket.CaptureInfo }

func (c *ctx) GetCaptureInfo() gopacket.CaptureInfo { return c.ci }

type harness struct {
	sc       int
	mu       sync.Mutex
	evs      []vh.M
	content  map[[2]int]*asmc.Content
	next     map[[2]int]int // next offset to send per (c,d)
	ctl      *sched.Controller
	owner    map[[2]int]int // which worker thread feeds (c,d)
	isWorker map[int]bool
	hole     map[[2]int]bool
	pool     *reassembly.StreamPool
}

// foreign: a callback for (c,d) that runs on a worker thread which does not feed (c,d) means that
// thread's packet was processed on another connection's object
func (h *harness) foreign(c, d int) bool {
	if h.ctl == nil {
		return false
	}
	th := h.ctl.ThreadIndex()
	if th < 0 {
		return false
	}
	o, ok := h.owner[[2]int{c, d}]
	if !ok {
		return false
	}
	// flusher threads have no entries of their own and may call back into any stream
	return h.isWorker[th] && o != th
}

func (h *harness) emit(m vh.M) {
	h.mu.Lock()
	m["sc"] = h.sc
	if h.ctl != nil {
		m["th"] = h.ctl.ThreadIndex()
	}
	h.evs = append(h.evs, m)
	h.mu.Unlock()
}

func (h *harness) cont(c, d int) *asmc.Content {
	h.mu.Lock()
	defer h.mu.Unlock()
	k := [2]int{c, d}
	if h.content[k] == nil {
		h.content[k] = asmc.NewContent(64, uint64(c*2+d))
		// make the two directions and connections distinguishable: offset the unique bytes
		for i := range h.content[k].B {
			h.content[k].B[i] = byte((c*2+d)*60 + i%60 + 1)
		}
	}
	return h.content[k]
}

type stream struct {
	h        *harness
	c        int
	firstDir int
	used     atomic.Bool
	inCB     atomic.Int32
	mu       sync.Mutex
}

func (h *harness) New(netFlow, tcpFlow gopacket.Flow, tcp *layers.TCP, ac reassembly.AssemblerContext) reassembly.Stream {
	c := int(tcp.SrcPort) - 1000
	d := 0
	if tcp.SrcPort == 80 {
		c = int(tcp.DstPort) - 1000
		d = 1
	}
	return &stream{h: h, c: c, firstDir: d}
}

func (s *stream) enter(what string) {
	if s.inCB.Add(1) != 1 {
		s.h.emit(vh.M{"op": "overlap", "c": s.c, "what": what})
	}
	if !s.used.Swap(true) {
		s.h.emit(vh.M{"op": "new", "c": s.c}) // a stream counts as kept once it is used
	}
}
func (s *stream) leave() { s.inCB.Add(-1) }

func (s *stream) Accept(tcp *layers.TCP, ci gopacket.CaptureInfo, dir reassembly.TCPFlowDirection, nextSeq reassembly.Sequence, start *bool, ac reassembly.AssemblerContext) bool {
	// which connection does this packet belong to?  A packet handed to the stream of another connection is a
	// misdelivery; a packet handed to its own connection's stream as the other direction (the connection object
	// was recycled for the reverse key while the assembler held a pointer to it) is a misdirection.  Both are
	// observed here, before anything else is logged for this packet: they are the direct evidence that the
	// assembler works on a connection object other than the one its lookup returned.
	pc := int(tcp.SrcPort) - 1000
	if tcp.SrcPort == 80 {
		pc = int(tcp.DstPort) - 1000
	}
	pd := 0
	if tcp.SrcPort == 80 {
		pd = 1
	}
	if pc != s.c {
		s.h.emit(vh.M{"op": "misdelivery", "c": s.c, "pktconn": pc})
	} else if (dir == reassembly.TCPDirClientToServer) != (pd == s.firstDir) {
		s.h.emit(vh.M{"op": "misdirection", "c": s.c, "d": pd})
	}
	s.enter("accept")
	defer s.leave()
	// the segment is logged here, after a possible "new" and before any delivery it causes
	lo := int(tcp.Seq - 5000)
	s.h.emit(vh.M{"op": "seg", "c": pc, "d": pd, "lo": lo, "hi": lo + len(tcp.Payload), "syn": false, "fin": tcp.FIN, "rst": false, "force": true, "ts": 1})
	*start = true
	return true
}

func (s *stream) ReassembledSG(sg reassembly.ScatterGather, ac reassembly.AssemblerContext) {
	s.enter("sg")
	defer s.leave()
	dir, _, end, skip := sg.Info()
	d := s.firstDir
	if dir == reassembly.TCPDirServerToClient {
		d = 1 - d
	}
	total, saved := sg.Lengths()
	b := sg.Fetch(total)
	ct := s.h.cont(s.c, d)
	// content bytes name their owner: (value-1)/60 = 2*c+d.  Bytes of another half in this delivery mean that the
	// connection object was recycled while the packet was being processed on it (reset under the pool lock only)
	for _, x := range b {
		if own := (int(x) - 1) / 60; own != 2*s.c+d {
			if own/2 != s.c {
				s.h.emit(vh.M{"op": "misdelivery", "c": s.c, "pktconn": own / 2})
			} else {
				s.h.emit(vh.M{"op": "misdirection", "c": s.c, "d": own % 2})
			}
			break
		}
	}
	s.h.emit(vh.M{"op": "sg", "c": s.c, "d": d, "srun": ct.Runs(b[:saved]), "nrun": ct.Runs(b[saved:]), "skip": skip, "end": end, "keep": -1, "total": total})
}

func (s *stream) ReassemblyComplete(ac reassembly.AssemblerContext) bool {
	// a stream that was never used and is not the stream of a connection registered in the pool lost a creation
	// race: its connection object was popped from the free list, reset and dropped.  Completing it means that
	// somebody (a flusher with an old snapshot) still held a pointer to that recycled object.
	if !s.used.Load() && s.h.pool != nil && !s.h.pool.VerifRegistered(s) {
		s.used.Store(true)
		s.h.emit(vh.M{"op": "orphancomplete", "c": s.c})
		return true
	}
	s.enter("complete")
	defer s.leave()
	s.h.emit(vh.M{"op": "complete", "c": s.c, "remove": true})
	return true
}

func mkPacket(h *harness, p pkt, isn uint32) (gopacket.Flow, *layers.TCP, int, int) {
	ct := h.cont(p.C, p.D)
	h.mu.Lock()
	k := [2]int{p.C, p.D}
	lo := h.next[k]
	if p.OOO {
		lo += 6 // beyond a hole of two packets: the next in-order packet fills only half of it, so this one stays queued
	} else {
		h.next[k] = lo + 3
	}
	hi := lo + 3
	h.mu.Unlock()
	tcp := &layers.TCP{SrcPort: layers.TCPPort(1000 + p.C), DstPort: 80, ACK: true, FIN: p.Fin}
	nf, _ := gopacket.FlowFromEndpoints(layers.NewIPEndpoint([]byte{1, 2, 3, byte(p.C)}), layers.NewIPEndpoint([]byte{5, 6, 7, 8}))
	if p.D == 1 {
		tcp.SrcPort, tcp.DstPort = tcp.DstPort, tcp.SrcPort
		nf = nf.Reverse()
	}
	tcp.SetInternalPortsForTesting()
	tcp.Seq = isn + uint32(lo)
	tcp.Payload = ct.B[lo:hi]
	return nf, tcp, lo, hi
}

func parseProgs(raw [][][]interface{}) [][]pkt {
	var out [][]pkt
	for _, th := range raw {
		var ps []pkt
		for _, e := range th {
			q := pkt{C: int(e[0].(float64)), D: int(e[1].(float64)), Fin: e[2].(bool)}
			if len(e) > 3 {
				q.OOO = e[3].(bool)
			}
			ps = append(ps, q)
		}
		out = append(out, ps)
	}
	return out
}

// runScenario: controlled=true replays s.Sched with the cooperative scheduler, then free-runs the rest.
func runScenario(tr *vh.Trace, sc int, s scen, controlled bool) {
	h := &harness{sc: sc, content: map[[2]int]*asmc.Content{}, next: map[[2]int]int{}, owner: map[[2]int]int{}, isWorker: map[int]bool{}, hole: map[[2]int]bool{}}
	h.emit(vh.M{"op": "cfg", "asm": "reassembly", "limit": 0, "controlled": controlled})
	pool := reassembly.NewStreamPool(h)
	h.pool = pool
	progs := parseProgs(s.Progs)
	for ti, prog := range progs {
		for _, p := range prog {
			if p.C != 0 {
				h.owner[[2]int{p.C, p.D}] = ti
				h.isWorker[ti] = true
			}
		}
	}
	ctl := sched.New()
	h.ctl = ctl
	reassembly.VerifYield = ctl.Yield
	var wg sync.WaitGroup
	body := func(ti int, prog []pkt) func() {
		asm := reassembly.NewAssembler(pool)
		return func() {
			defer wg.Done()
			defer func() {
				if r := recover(); r != nil {
					msg := fmt.Sprint(r)
					if len(msg) > 80 {
						msg = msg[:80]
					}
					h.emit(vh.M{"op": "panic", "msg": msg, "site": vh.PanicSite()})
				}
			}()
			for i, p := range prog {
				if p.C == 0 {
					h.emit(vh.M{"op": "flushb", "kind": "all", "t": 0, "concurrent": true})
					if p.D == 1 {
						asm.FlushCloseOlderThan(time.Unix(5000, 0))
					} else {
						asm.FlushAll()
					}
					h.emit(vh.M{"op": "flushe", "kind": "other", "t": 0})
				} else {
					nf, tcp, _, _ := mkPacket(h, p, 5000)
					asm.AssembleWithContext(nf, tcp, &ctx{ci: gopacket.CaptureInfo{Timestamp: time.Unix(int64(1000+i), 0)}})
				}
				ctl.Yield("op-done")
			}
		}
	}
	wg.Add(len(progs))
	if controlled {
		for ti, prog := range progs {
			ctl.Go(ti, body(ti, prog))
		}
		stuck := false
		for _, t := range s.Sched {
			r := ctl.Step(t-1, 20*time.Second)
			if r == "stuck" {
				stuck = true
				break
			}
		}
		ok := ctl.FreeRun(60 * time.Second)
		if stuck || !ok {
			h.emit(vh.M{"op": "stuck", "stacks": stacks()})
			stuckCount++
		}
	} else {
		for ti, prog := range progs {
			ctl.Go(ti, body(ti, prog))
		}
		if !ctl.FreeRun(60 * time.Second) {
			h.emit(vh.M{"op": "stuck", "stacks": stacks()})
			stuckCount++
		}
	}
	// quiesce: a final sequential FlushAll by the main goroutine
	h.ctl = nil
	reassembly.VerifYield = func(string) {}
	fin := reassembly.NewAssembler(pool)
	func() {
		defer func() {
			if r := recover(); r != nil {
				h.emit(vh.M{"op": "panic", "msg": fmt.Sprint(r), "site": vh.PanicSite()})
			}
		}()
		h.emit(vh.M{"op": "flushb", "kind": "all", "t": 0})
		fin.FlushAll()
		h.emit(vh.M{"op": "flushe", "kind": "all", "t": 0})
		h.emit(vh.M{"op": "api", "call": "flushall", "t": 0, "pages": 0, "conns": pool.VerifConnCount(), "maxq": 0, "oldest": -1, "pktpages": 0})
	}()
	tr.EmitBlock(h.evs)
}

var stuckCount int

// stacks: where the goroutines stand when a scenario stalls (for the replay file; truncated)
func stacks() string {
	buf := make([]byte, 1<<16)
	n := runtime.Stack(buf, true)
	if n > 6000 {
		n = 6000
	}
	return string(buf[:n])
}

func main() {
	in := flag.String("scenarios", "", "ndjson: {progs, sched}")
	out := flag.String("trace", "trace.ndjson", "trace output")
	stress := flag.Int("stress", 0, "free-running repetitions of every distinct program set (use with a -race build)")
	flag.Parse()
	tr := vh.NewTrace(*out)
	f, err := os.Open(*in)
	if err != nil {
		vh.Fatal(err)
	}
	rd := bufio.NewScanner(f)
	rd.Buffer(make([]byte, 1<<20), 1<<24)
	sc := 0
	seen := map[string]bool{}
	for rd.Scan() {
		if stuckCount >= 3 {
			break // a stalled scenario costs more than a minute: three are evidence enough
		}
		var s scen
		if err := json.Unmarshal(rd.Bytes(), &s); err != nil {
			vh.Fatal("bad scenario", err)
		}
		if *stress == 0 {
			sc++
			runScenario(tr, sc, s, true)
			continue
		}
		k, _ := json.Marshal(s.Progs)
		if seen[string(k)] {
			continue
		}
		seen[string(k)] = true
		for i := 0; i < *stress; i++ {
			sc++
			runScenario(tr, sc, s, false)
		}
	}
	tr.Close()
	fmt.Printf("{\"scenarios\":%d,\"events\":%d}\n", sc, tr.N)
}
