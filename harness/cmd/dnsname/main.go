// dnsname: replays DNS messages on the real decoder (layers.DNS) and records what it says about ONE domain
// name in each of them.  X23DNS (DnsName.tla: name decompression as a pointer graph).
//
// Inputs: every region exported by TLC from DnsNameMC.tla (-cases; a region is a short octet sequence over a
// tiny alphabet, materialised at real offset 256 of a DNS message so that the low octet of a pointer 0xC1 t is
// the region offset t, and decoded from every start offset through a question, an owner name, and NAPTR RDATA
// whose last character-string ends exactly where the name starts), and seeded random messages far beyond that
// bound (-rand: pointer chains around the recursion limit, names at the 63 / 255 octet limits, cycles, pointers
// at and behind the end of the data, soup; name in question / owner / NS / CNAME / PTR / MX / SRV / SOA / NAPTR).
//
// Three ways per case: a = gopacket.NewPacket (recovery on) + read-only uses, b = NewPacket NoCopy with
// SkipDecodeRecovery, c = DecodeFromBytes on a reused layer.  Decoding runs in a child process: a fatal error
// (stack overflow, out of memory), a hang or runaway growth kills only the child; the parent records it as the
// observation of the case in progress and restarts behind it.  Nothing is decided here: the trace is judged
// by DnsNameTrace.tla.
package main

import (
	"bufio"
	"bytes"
	"encoding/binary"
	"encoding/json"
	"flag"
	"fmt"
	"hash/crc32"
	"hash/fnv"
	"io"
	"os"
	"os/exec"
	"runtime"
	"runtime/debug"
	"sort"
	"strconv"
	"strings"
	"sync/atomic"
	"time"

	"github.com/gopacket/gopacket"
	"github.com/gopacket/gopacket/layers"
	"verif/harness/vh"
)

// ---------------------------------------------------------------------------------------------
// layouts and work list (built identically by parent and child)

type layout struct {
	ctx      string
	at, dlen int
	tm       bool
	pre, suf []byte
	qi, ai   int // index of the question / answer record that carries the name
	kind     string
}

type item struct {
	lay *layout
	reg []byte
}

func (it *item) data() []byte {
	d := make([]byte, 0, len(it.lay.pre)+len(it.reg)+len(it.lay.suf))
	d = append(d, it.lay.pre...)
	d = append(d, it.reg...)
	d = append(d, it.lay.suf...)
	return d
}

func header(qd, an, ns, ar int) []byte {
	h := []byte{0xAB, 0xCD, 0x81, 0x80, 0, 0, 0, 0, 0, 0, 0, 0}
	binary.BigEndian.PutUint16(h[4:], uint16(qd))
	binary.BigEndian.PutUint16(h[6:], uint16(an))
	binary.BigEndian.PutUint16(h[8:], uint16(ns))
	binary.BigEndian.PutUint16(h[10:], uint16(ar))
	return h
}

func rrHead(owner []byte, typ, class int, ttl uint32, rdlen int) []byte {
	b := append([]byte{}, owner...)
	b = append(b, byte(typ>>8), byte(typ), byte(class>>8), byte(class), byte(ttl>>24), byte(ttl>>16), byte(ttl>>8), byte(ttl), byte(rdlen>>8), byte(rdlen))
	return b
}

func fill(n int, c byte) []byte { return bytes.Repeat([]byte{c}, n) }

const regionBase = 256

// the three exhaustive layouts: the region occupies [256, 256+n), the name under test starts at 256+s
func layQ(n, s int) *layout { // s <= 4: the region's first s octets are the tail of the first question's type/class
	pre := header(2, 0, 0, 0)
	for i := 0; i < 3; i++ {
		pre = append(pre, 63)
		pre = append(pre, fill(63, 'x')...)
	}
	pre = append(pre, byte(46+s))
	pre = append(pre, fill(46+s, 'x')...)
	pre = append(pre, 0)
	pre = append(pre, []byte{0, 1, 0, 1}[:4-s]...)
	suf := []byte{0x00, 0x10, 0x00, 0x01}
	return &layout{ctx: "Q", at: regionBase + s, dlen: regionBase + n + len(suf), pre: pre, suf: suf, qi: 1, kind: "exh"}
}

func layOWN(n, s int) *layout { // an opaque record whose RDATA ends at 256+s, then the record under test
	pre := header(0, 2, 0, 0)
	pre = append(pre, rrHead([]byte{0}, 0xFF01, 1, 0, 233+s)...)
	pre = append(pre, fill(233, 'y')...)
	suf := []byte{0xFF, 0x02, 0, 1, 0, 0, 0, 0, 0, 0}
	return &layout{ctx: "OWN", at: regionBase + s, dlen: regionBase + n + len(suf), pre: pre, suf: suf, ai: 1, kind: "exh"}
}

func layNAPTR(n, s int, trailer bool) *layout { // regexp string ends at 256+s, RDATA ends at 256+n
	ar := 0
	if trailer {
		ar = 1
	}
	pre := header(0, 1, 0, ar)
	pre = append(pre, rrHead([]byte{0}, 35, 1, 0, 233+n)...)
	pre = append(pre, 0, 1, 0, 2, 0, 0, byte(226+s))
	pre = append(pre, fill(226, 'z')...)
	var suf []byte
	if trailer {
		suf = rrHead([]byte{0}, 0xFF03, 1, 0, 0)
	}
	return &layout{ctx: "NAPTR", at: regionBase + s, dlen: regionBase + n, pre: pre, suf: suf, ai: 0, kind: "exh"}
}

// anchor: label, then a pointer (ending the region) to a root label: replayed in every layout for every seed (the check's
// binding self-test starts from its recorded observation)
var anchor = []byte{1, 0, 0xC1, 1}

func pick(m []byte, tag string, s int, seed uint64, slice int) bool {
	if slice <= 1 || bytes.Equal(m, anchor) {
		return true
	}
	h := fnv.New64a()
	h.Write(m)
	h.Write([]byte(tag))
	h.Write([]byte{byte(s)})
	return (h.Sum64()>>7)%uint64(slice) == seed%uint64(slice)
}

// buildWork: exhaustive items grouped by layout, then the random ones (each its own layout)
func buildWork(casesPath string, seed uint64, slice, nrand int) []item {
	var regs [][]byte
	if casesPath != "" {
		f, err := os.Open(casesPath)
		if err != nil {
			vh.Fatal(err)
		}
		rd := bufio.NewScanner(f)
		rd.Buffer(make([]byte, 1<<20), 1<<24)
		for rd.Scan() {
			var c struct {
				M []int `json:"m"`
			}
			if err := json.Unmarshal(rd.Bytes(), &c); err != nil {
				vh.Fatal("bad case line:", err)
			}
			m := make([]byte, len(c.M))
			for i, x := range c.M {
				m[i] = byte(x)
			}
			regs = append(regs, m)
		}
		f.Close()
	}
	sort.SliceStable(regs, func(i, j int) bool {
		if len(regs[i]) != len(regs[j]) {
			return len(regs[i]) < len(regs[j])
		}
		return bytes.Compare(regs[i], regs[j]) < 0
	})
	var work []item
	maxn := 0
	for _, m := range regs {
		if len(m) > maxn {
			maxn = len(m)
		}
	}
	type lk struct {
		tag  string
		n, s int
	}
	tags := []string{"NAPTR", "NAPTRT", "OWN", "Q"}
	for _, tag := range tags {
		for n := 0; n <= maxn; n++ {
			for s := 0; s <= n; s++ {
				if tag == "Q" && s > 4 {
					continue
				}
				var lay *layout
				for _, m := range regs {
					if len(m) != n {
						continue
					}
					if tag != "NAPTR" && !pick(m, tag, s, seed, slice) {
						continue
					}
					if lay == nil {
						switch tag {
						case "NAPTR":
							lay = layNAPTR(n, s, false)
						case "NAPTRT":
							lay = layNAPTR(n, s, true)
						case "OWN":
							lay = layOWN(n, s)
						case "Q":
							lay = layQ(n, s)
						}
						if len(lay.pre) != regionBase {
							vh.Fatal("layout", tag, n, s, "prefix is", len(lay.pre), "octets")
						}
					}
					work = append(work, item{lay: lay, reg: m})
				}
			}
		}
	}
	r := vh.NewRand(seed*7919 + 17)
	for i := 0; i < nrand; i++ {
		work = append(work, item{lay: randomLayout(r, i)})
	}
	return work
}

// ---------------------------------------------------------------------------------------------
// seeded random messages beyond the exhaustive bound

type heap struct {
	b    []byte
	base int // real offset of b[0]
}

func (h *heap) off() int { return h.base + len(h.b) }
func ptr(off int) []byte { return []byte{0xC0 | byte(off>>8&0x3F), byte(off)} }
func label(r *vh.Rand, n int) []byte {
	b := []byte{byte(n)}
	for i := 0; i < n; i++ {
		c := byte('a' + r.Intn(26))
		switch r.Intn(40) {
		case 0:
			c = '.'
		case 1:
			c = '\\'
		case 2:
			c = byte(r.Intn(256))
		}
		b = append(b, c)
	}
	return b
}

// randomLayout: header [question 0] [heap record] test record [heap record 2] [trailer]
func randomLayout(r *vh.Rand, idx int) *layout {
	kinds := []string{"chain", "chain", "limit", "limit", "cycle", "soup", "soup", "valid", "edge", "edge"}
	kind := kinds[idx%len(kinds)]
	ctxs := []string{"Q", "OWN", "CNAME", "NS", "PTR", "MX", "SRV", "SOA", "NAPTR"}
	ctx := ctxs[r.Intn(len(ctxs))]
	withQ0 := ctx != "Q" && r.Intn(3) > 0
	q0 := []byte{}
	if withQ0 || ctx == "Q" {
		q0 = append(q0, 3, 'w', 'w', 'w', 7, 'e', 'x', 'a', 'm', 'p', 'l', 'e', 3, 'c', 'o', 'm', 0, 0, 1, 0, 1)
	}
	// heap 1 sits in the RDATA of an opaque record in front of the test record (for a question: behind it)
	h1base := 12 + len(q0) + 11
	if ctx == "Q" { // the heap of a question's name lies behind it (forward pointers): a fixed place far enough away
		h1base = 12 + len(q0) + 340
	}
	var testName []byte
	var h1, h2 heap
	h1.base = h1base
	// the test name and heap 2 are placed later; pointers into heap 2 / to the end need the final size, so the
	// generators below only point into heap 1, the header / question 0 region, or to literal offsets
	switch kind {
	case "chain":
		ks := []int{1, 2, 7, 100, 250, 253, 254, 255, 256, 300}
		k := ks[r.Intn(len(ks))]
		withLab := r.Intn(3) == 0
		// elements: [label] pointer -> next; last: label root.  Laid out back to front so that pointers point backward
		// (or front to back = forward pointers) at random
		forward := r.Intn(4) == 0
		elems := make([][]byte, k+1)
		sizes := make([]int, k+1)
		for i := 0; i <= k; i++ {
			n := 0
			if withLab && i < k {
				n = 2
			}
			if i == k {
				if r.Intn(4) == 0 {
					sizes[i] = 1 // bare root
				} else {
					sizes[i] = 4 // label(2) + root
				}
			} else {
				sizes[i] = n + 2
			}
		}
		offs := make([]int, k+1)
		o := h1.base
		order := make([]int, k+1)
		for i := range order {
			if forward {
				order[i] = i
			} else {
				order[i] = k - i
			}
		}
		for _, i := range order {
			offs[i] = o
			o += sizes[i]
		}
		for i := 0; i <= k; i++ {
			var e []byte
			if i == k {
				if sizes[i] == 4 {
					e = append(label(r, 2), 0)
				} else {
					e = []byte{0}
				}
			} else {
				if withLab {
					e = append(e, label(r, 1)...)
				}
				e = append(e, ptr(offs[i+1])...)
			}
			elems[i] = e
		}
		for _, i := range order {
			h1.b = append(h1.b, elems[i]...)
		}
		if r.Intn(2) == 0 {
			testName = append(label(r, 1+r.Intn(5)), ptr(offs[0])...)
		} else {
			testName = ptr(offs[0])
		}
	case "limit":
		sets := [][]int{{63, 63, 63, 61}, {63, 63, 63, 62}, {63, 63, 63, 63}, {63, 63, 63, 60}, {63}, {62, 1}, {63, 63, 63, 59, 1},
			{63, 63, 63, 61, 1}, {1, 1, 1}, {63, 63, 63, 30, 30}}
		set := sets[r.Intn(len(sets))]
		cut := r.Intn(len(set) + 1) // labels [cut:] live in heap 1, reached through a pointer
		if r.Intn(3) == 0 {
			cut = len(set)
		}
		tailOff := h1.off()
		for _, n := range set[cut:] {
			h1.b = append(h1.b, label(r, n)...)
		}
		if r.Intn(3) == 0 && cut < len(set) { // a second hop
			h1.b = append(h1.b, ptr(h1.off()+2)...)
			h1.b = append(h1.b, label(r, 1+r.Intn(63))...)
		}
		h1.b = append(h1.b, 0)
		for _, n := range set[:cut] {
			testName = append(testName, label(r, n)...)
		}
		if cut < len(set) {
			testName = append(testName, ptr(tailOff)...)
		} else {
			testName = append(testName, 0)
		}
	case "cycle":
		l := 1 + r.Intn(40)
		if r.Intn(5) == 0 {
			l = 100 + r.Intn(200)
		}
		withLab := r.Intn(2) == 0
		sz := 2
		if withLab {
			sz = 4
		}
		for i := 0; i < l; i++ {
			if withLab {
				h1.b = append(h1.b, label(r, 1)...)
			}
			h1.b = append(h1.b, ptr(h1.base+((i+1)%l)*sz)...)
		}
		testName = append(label(r, r.Intn(3)+1), ptr(h1.base+r.Intn(l)*sz)...)
		if r.Intn(4) == 0 {
			testName = ptr(h1.base)
		}
	case "valid":
		// a few names sharing suffixes, as a compressing encoder writes them
		var starts []int
		for i := 0; i < 2+r.Intn(6); i++ {
			starts = append(starts, h1.off())
			for j := 0; j < 1+r.Intn(3); j++ {
				h1.b = append(h1.b, label(r, 1+r.Intn(12))...)
			}
			if i > 0 && r.Intn(3) > 0 {
				h1.b = append(h1.b, ptr(starts[r.Intn(i)])...)
			} else if len(q0) > 0 && r.Intn(2) == 0 {
				h1.b = append(h1.b, ptr(12+[]int{0, 4, 12}[r.Intn(3)])...)
			} else {
				h1.b = append(h1.b, 0)
			}
		}
		testName = append(label(r, 1+r.Intn(20)), ptr(starts[r.Intn(len(starts))])...)
	case "soup", "edge":
		n := 20 + r.Intn(400)
		if kind == "edge" {
			n = r.Intn(40)
		}
		gen := func(n int, span int) []byte {
			var b []byte
			for len(b) < n {
				switch x := r.Intn(20); {
				case x < 8:
					b = append(b, label(r, 1+r.Intn(6))...)
				case x < 13:
					b = append(b, ptr(r.Intn(span))...)
				case x < 15:
					b = append(b, 0)
				case x < 16:
					b = append(b, byte(0x40+r.Intn(0x80)))
				case x < 17:
					b = append(b, 0xC0|byte(r.Intn(64)))
				default:
					b = append(b, byte(r.Intn(256)))
				}
			}
			return b
		}
		h1.b = gen(n, h1.base+n+60)
		testName = gen(1+r.Intn(12), h1.base+n+60)
		if r.Intn(3) > 0 {
			testName = append(testName, 0)
		}
	}
	// assemble
	opaque := func(typ int, rdata []byte) []byte { return append(rrHead([]byte{0}, typ, 1, 0, len(rdata)), rdata...) }
	var msg []byte
	qd, an := 0, 0
	if len(q0) > 0 {
		qd = 1
	}
	heapFirst := ctx != "Q"
	msg = append(msg, make([]byte, 12)...)
	msg = append(msg, q0...)
	lay := &layout{ctx: ctx, kind: kind}
	if heapFirst {
		msg = append(msg, opaque(0xFF01, h1.b)...)
		an++
	}
	owner := []byte{0}
	if len(q0) > 0 && r.Intn(2) == 0 {
		owner = ptr(12)
	}
	end := 0
	switch ctx {
	case "Q":
		// heap 1 cannot sit in front of a question: the names point forward into the record behind the question
		// (tm: where that record starts for the decoder depends on where the name ends)
		lay.qi = qd
		qd++
		lay.at = len(msg)
		msg = append(msg, testName...)
		msg = append(msg, 0, byte(1+r.Intn(40)), 0, 1)
		// forward heap: place it so that h1.base is right
		pad := h1.base - (len(msg) + 11)
		if pad < 0 {
			vh.Fatal("random question layout: name too long for the forward heap", len(testName))
		}
		msg = append(msg, opaque(0xFF01, append(fill(pad, 0), h1.b...))...)
		an++
		lay.tm = true
	case "OWN":
		lay.ai = an
		an++
		lay.at = len(msg)
		msg = append(msg, testName...)
		switch r.Intn(3) {
		case 0:
			msg = append(msg, 0xFF, 0x02, 0, 1, 0, 0, 0, 9, 0, 0)
		case 1:
			msg = append(msg, 0, 1, 0, 1, 0, 0, 0, 9, 0, 4, 10, 0, 0, 1)
		default:
			msg = append(msg, 0, 16, 0, 1, 0, 0, 0, 9, 0, 3, 2, 'h', 'i')
		}
	default:
		lay.ai = an
		an++
		var pre, post []byte
		typ := 0
		switch ctx {
		case "CNAME":
			typ = 5
		case "NS":
			typ = 2
		case "PTR":
			typ = 12
		case "MX":
			typ, pre = 15, []byte{0, 10}
		case "SRV":
			typ, pre = 33, []byte{0, 1, 0, 2, 0, 80}
		case "NAPTR":
			typ = 35
			pre = []byte{0, 1, 0, 2, 1, 'U', 7, 'E', '2', 'U', '+', 's', 'i', 'p', byte(r.Intn(30))}
			pre = append(pre, fill(int(pre[len(pre)-1]), '!')...)
		case "SOA":
			typ = 6
			switch r.Intn(3) {
			case 0:
				post = append(label(r, 1+r.Intn(10)), 0)
			case 1:
				post = append(label(r, 1+r.Intn(10)), ptr(12)...)
			default:
				post = ptr(h1.base + r.Intn(len(h1.b)+1))
			}
			post = append(post, 0x12, 0x34, 0x56, 0x78)
			post = append(post, fill(16-r.Intn(3)*r.Intn(2), 7)...)
		}
		rdata := append(append(append([]byte{}, pre...), testName...), post...)
		msg = append(msg, rrHead(owner, typ, 1, 60, len(rdata))...)
		lay.at = len(msg) + len(pre)
		msg = append(msg, rdata...)
		end = len(msg)
	}
	// something behind the test record
	ar := 0
	switch r.Intn(6) {
	case 0: // a second heap (forward pointer targets) in an opaque record
		h2.b = append(label(r, 3), 0)
		msg = append(msg, opaque(0xFF04, h2.b)...)
		an++
		if ctx == "OWN" {
			lay.tm = true
		}
	case 1: // EDNS OPT record, possibly with stray octets behind its last option: last thing in the message
		opt := []byte{0, 10, 0, 8, 1, 2, 3, 4, 5, 6, 7, 8}
		opt = append(opt, fill(r.Intn(4), 0)...)
		if r.Intn(4) == 0 {
			opt = opt[:r.Intn(len(opt)+1)]
		}
		msg = append(msg, append(rrHead([]byte{0}, 41, 4096, 0, len(opt)), opt...)...)
		ar++
		lay.tm = true
	case 2: // junk
		msg = append(msg, r.Bytes(r.Intn(24))...)
		if r.Intn(2) == 0 {
			ar++
		}
		lay.tm = true
	}
	copy(msg, header(qd, an, 0, ar))
	if ctx == "Q" || ctx == "OWN" {
		end = len(msg)
	}
	if kind == "edge" && r.Intn(2) == 0 {
		// a pointer exactly at / around the end of what the decoder sees
		tgt := end + r.Intn(3) - 1
		if ctx != "Q" && ctx != "OWN" && lay.at+2 <= end {
			copy(msg[lay.at:], ptr(tgt))
		}
	}
	lay.pre = msg
	lay.dlen = end
	return lay
}

// ---------------------------------------------------------------------------------------------
// child: decode and observe

func errClass(s string) string {
	switch {
	case s == "max DNS recursion level hit":
		return "maxrec"
	case s == "dns name offset too high":
		return "offhigh"
	case s == "dns name offset is negative":
		return "offneg"
	case s == "dns name is too long":
		return "toolong"
	case s == "dns name uncomputable: invalid index":
		return "invidx"
	case s == "dns offset pointer too high":
		return "ptrhigh"
	case s == "dns index walked out of range":
		return "walked"
	case strings.HasPrefix(s, "qname '0x40'"):
		return "res40"
	case strings.HasPrefix(s, "qname '0x80'"):
		return "res80"
	case s == "DNS question too small":
		return "qsmall"
	case s == "DNS record too small":
		return "rrsmall"
	case s == "resource record length exceeds data":
		return "rrlen"
	case s == "SOA too small":
		return "soasmall"
	}
	if len(s) > 48 {
		s = s[:48]
	}
	return "other: " + s
}

type obs struct {
	kind  string
	names [][]int
	nums  []int
	ec    string
}

func (o obs) tuple() []interface{} {
	n := o.names
	if n == nil {
		n = [][]int{}
	}
	m := o.nums
	if m == nil {
		m = []int{}
	}
	return []interface{}{o.kind, n, m}
}

func observe(d *layers.DNS, lay *layout) obs {
	o := obs{kind: "ok"}
	if lay.ctx == "Q" {
		if lay.qi >= len(d.Questions) {
			return obs{kind: "err", ec: "other: question missing"}
		}
		q := d.Questions[lay.qi]
		o.names = [][]int{vh.Ints(q.Name)}
		o.nums = []int{int(q.Type), int(q.Class)}
		return o
	}
	if lay.ai >= len(d.Answers) {
		return obs{kind: "err", ec: "other: record missing"}
	}
	rr := d.Answers[lay.ai]
	switch lay.ctx {
	case "OWN":
		o.names = [][]int{vh.Ints(rr.Name)}
		o.nums = []int{int(rr.Type), int(rr.Class)}
	case "CNAME":
		o.names = [][]int{vh.Ints(rr.CNAME)}
	case "NS":
		o.names = [][]int{vh.Ints(rr.NS)}
	case "PTR":
		o.names = [][]int{vh.Ints(rr.PTR)}
	case "MX":
		o.names = [][]int{vh.Ints(rr.MX.Name)}
	case "SRV":
		o.names = [][]int{vh.Ints(rr.SRV.Name)}
	case "NAPTR":
		o.names = [][]int{vh.Ints(rr.NAPTR.Replacement)}
	case "SOA":
		o.names = [][]int{vh.Ints(rr.SOA.MName), vh.Ints(rr.SOA.RName)}
		o.nums = []int{int(rr.SOA.Serial >> 16), int(rr.SOA.Serial & 0xFFFF)}
	}
	o.nums = append([]int{}, o.nums...)
	return o
}

func digest(b []byte) int { return int(crc32.ChecksumIEEE(b) >> 2) }

var (
	curItem atomic.Int64
	curTick atomic.Int64
)

func exact(b []byte) []byte {
	c := make([]byte, len(b))
	copy(c, b)
	return c[:len(c):len(c)]
}

func childMain(work []item, from, skip int, stall time.Duration) {
	debug.SetMaxStack(48 << 20)
	out := bufio.NewWriterSize(os.Stdout, 1<<16)
	mark := func(i int, mode string) {
		fmt.Fprintf(out, "S %d %s\n", i, mode)
		out.Flush()
		curTick.Add(1)
	}
	go func() { // watchdog: no progress for `stall`, or runaway memory
		last, since := int64(-1), time.Now()
		var ms runtime.MemStats
		for {
			time.Sleep(100 * time.Millisecond)
			runtime.ReadMemStats(&ms)
			if ms.HeapAlloc > 3<<30 {
				os.Stdout.WriteString("M\n")
				os.Exit(4)
			}
			if c := curTick.Load(); c != last {
				last, since = c, time.Now()
			} else if time.Since(since) > stall {
				buf := make([]byte, 1<<16)
				n := runtime.Stack(buf, true)
				os.Stderr.Write(buf[:n])
				os.Stdout.WriteString("H\n")
				os.Exit(3)
			}
		}
	}()
	var reused layers.DNS
	var lastLay *layout
	for i := from; i < len(work); i++ {
		it := &work[i]
		lay := it.lay
		if lay != lastLay {
			ev, _ := json.Marshal(vh.M{"op": "lay", "ctx": lay.ctx, "at": lay.at, "dlen": lay.dlen, "tm": lay.tm,
				"pre": vh.Ints(lay.pre), "suf": vh.Ints(lay.suf), "kind": lay.kind})
			out.WriteString("E ")
			out.Write(ev)
			out.WriteByte('\n')
			lastLay = lay
		}
		data := it.data()
		h0 := digest(data)
		res := [3]obs{{kind: "skip"}, {kind: "skip"}, {kind: "skip"}}
		hs := [3]int{-1, -1, -1}
		first := 0
		if i == from {
			first = skip // the process died in an earlier mode of this case: go on behind it
		}
		// a: recovery on, default options, then every read-only use
		if first <= 0 {
			mark(i, "a")
			var o obs
			msg, site, p := vh.Guard(func() {
				pk := gopacket.NewPacket(data, layers.LayerTypeDNS, gopacket.Default)
				ls := pk.Layers()
				el := pk.ErrorLayer()
				_ = pk.String()
				_ = pk.Dump()
				for _, l := range ls {
					_ = gopacket.LayerString(l)
					_ = gopacket.LayerGoString(l)
				}
				if el != nil {
					o = obs{kind: "err", ec: errClass(el.Error().Error())}
				} else if dl, ok := pk.Layer(layers.LayerTypeDNS).(*layers.DNS); ok {
					o = observe(dl, lay)
				} else {
					o = obs{kind: "err", ec: "other: no DNS layer"}
				}
			})
			if p {
				o = obs{kind: "panic", ec: vh.SiteSig(os.Getenv("VERIF_REPO"), site) + "|" + trim(msg)}
			}
			res[0], hs[0] = o, digest(data)
		}
		// b: no recovery, decoder works on our buffer (exact capacity)
		if first <= 1 {
			mark(i, "b")
			var o obs
			buf := exact(data)
			msg, site, p := vh.Guard(func() {
				pk := gopacket.NewPacket(buf, layers.LayerTypeDNS, gopacket.DecodeOptions{NoCopy: true, SkipDecodeRecovery: true})
				_ = pk.Layers()
				if el := pk.ErrorLayer(); el != nil {
					o = obs{kind: "err", ec: errClass(el.Error().Error())}
				} else if dl, ok := pk.Layer(layers.LayerTypeDNS).(*layers.DNS); ok {
					o = observe(dl, lay)
				} else {
					o = obs{kind: "err", ec: "other: no DNS layer"}
				}
			})
			if p {
				o = obs{kind: "panic", ec: vh.SiteSig(os.Getenv("VERIF_REPO"), site) + "|" + trim(msg)}
			}
			res[1], hs[1] = o, digest(buf)
		}
		// c: DecodeFromBytes on a layer that is reused from case to case
		if first <= 2 {
			mark(i, "c")
			var o obs
			buf := exact(data)
			msg, site, p := vh.Guard(func() {
				if err := reused.DecodeFromBytes(buf, gopacket.NilDecodeFeedback); err != nil {
					o = obs{kind: "err", ec: errClass(err.Error())}
				} else {
					o = observe(&reused, lay)
				}
			})
			if p {
				o = obs{kind: "panic", ec: vh.SiteSig(os.Getenv("VERIF_REPO"), site) + "|" + trim(msg)}
				reused = layers.DNS{}
			}
			res[2], hs[2] = o, digest(buf)
		}
		ev, err := json.Marshal(vh.M{"op": "case", "sc": i, "reg": vh.Ints(it.reg), "a": res[0].tuple(), "b": res[1].tuple(), "c": res[2].tuple(),
			"ec": []string{res[0].ec, res[1].ec, res[2].ec}, "h": []int{h0, hs[0], hs[1], hs[2]}})
		if err != nil {
			vh.Fatal(err)
		}
		out.WriteString("E ")
		out.Write(ev)
		out.WriteByte('\n')
	}
	out.WriteString("D\n")
	out.Flush()
}

func trim(s string) string {
	if len(s) > 80 {
		s = s[:80]
	}
	return s
}

// ---------------------------------------------------------------------------------------------
// parent

func main() {
	cases := flag.String("cases", "", "ndjson of regions exported by TLC ({\"m\":[...]})")
	tracePath := flag.String("trace", "trace.ndjson", "output trace")
	seed := flag.Uint64("seed", 1, "seed")
	slice := flag.Int("slice", 1, "replay 1/slice of the exhaustive cases in the layouts other than NAPTR")
	nrand := flag.Int("rand", 0, "number of seeded random messages")
	stall := flag.Int("stall", 60, "seconds without progress that count as a hang")
	maxCrash := flag.Int("maxcrash", 9, "give up after this many crashes / hangs")
	child := flag.Bool("child", false, "(internal)")
	from := flag.Int("from", 0, "(internal)")
	skip := flag.Int("skip", 0, "(internal) modes of the first case that are not run")
	dump := flag.Int("dump", -1, "print the message of work item N as hex and exit")
	flag.Parse()
	work := buildWork(*cases, *seed, *slice, *nrand)
	if *dump >= 0 {
		it := work[*dump]
		fmt.Printf("ctx=%s at=%d dlen=%d tm=%v kind=%s\n%x\n", it.lay.ctx, it.lay.at, it.lay.dlen, it.lay.tm, it.lay.kind, it.data())
		return
	}
	if *child {
		childMain(work, *from, *skip, time.Duration(*stall)*time.Second)
		return
	}
	f, err := os.Create(*tracePath)
	if err != nil {
		vh.Fatal(err)
	}
	tw := bufio.NewWriterSize(f, 1<<20)
	events, crashes, hangs, aborted := 0, 0, 0, false
	emit := func(b []byte) {
		if bytes.Contains(b, []byte(":null")) {
			b = bytes.ReplaceAll(b, []byte(":null"), []byte(":[]"))
		}
		tw.Write(b)
		tw.WriteByte('\n')
		events++
	}
	self, _ := os.Executable()
	start, skipModes := 0, 0
	var crashTexts []string
	for start < len(work) {
		args := []string{"-child", "-from", strconv.Itoa(start), "-skip", strconv.Itoa(skipModes), "-cases", *cases, "-seed", strconv.FormatUint(*seed, 10),
			"-slice", strconv.Itoa(*slice), "-rand", strconv.Itoa(*nrand), "-stall", strconv.Itoa(*stall)}
		cmd := exec.Command(self, args...)
		so, _ := cmd.StdoutPipe()
		var se tail
		cmd.Stderr = &se
		if err := cmd.Start(); err != nil {
			vh.Fatal("cannot start child:", err)
		}
		cur, mode, done, flagged := start-1, "", false, ""
		lines := make(chan []byte, 256)
		go func() {
			rd := bufio.NewReaderSize(so, 1<<20)
			for {
				l, err := rd.ReadBytes('\n')
				if len(l) > 0 {
					lines <- bytes.TrimRight(l, "\n")
				}
				if err != nil {
					close(lines)
					return
				}
			}
		}()
		timer := time.NewTimer(time.Duration(*stall+30) * time.Second)
	loop:
		for {
			select {
			case l, ok := <-lines:
				if !ok {
					break loop
				}
				if !timer.Stop() {
					select {
					case <-timer.C:
					default:
					}
				}
				timer.Reset(time.Duration(*stall+30) * time.Second)
				switch {
				case len(l) > 2 && l[0] == 'E':
					emit(l[2:])
				case len(l) > 2 && l[0] == 'S':
					parts := strings.Fields(string(l))
					cur, _ = strconv.Atoi(parts[1])
					mode = parts[2]
				case len(l) == 1 && l[0] == 'D':
					done = true
				case len(l) == 1 && (l[0] == 'H' || l[0] == 'M'):
					flagged = string(l)
				}
			case <-timer.C:
				flagged = "H"
				cmd.Process.Kill()
			}
		}
		werr := cmd.Wait()
		if done && werr == nil {
			break
		}
		// the child died in case `cur`, mode `mode`
		if cur < start {
			vh.Fatal("child died before its first case:", werr, se.String())
		}
		kind, text := "fatal", se.fatalLine()
		if flagged == "H" {
			kind, text = "hang", "no progress for "+strconv.Itoa(*stall)+" s"
			hangs++
		} else {
			if flagged == "M" {
				text = "memory runaway (heap above 3 GiB)"
			}
			crashes++
		}
		crashTexts = append(crashTexts, text)
		it := &work[cur]
		tup := func(m string) []interface{} {
			if m == mode {
				return []interface{}{kind, [][]int{}, []int{}}
			}
			return []interface{}{"skip", [][]int{}, []int{}}
		}
		ecs := []string{"", "", ""}
		ecs[strings.Index("abc", mode)] = text
		ev, _ := json.Marshal(vh.M{"op": "case", "sc": cur, "reg": vh.Ints(it.reg), "a": tup("a"), "b": tup("b"), "c": tup("c"),
			"ec": ecs, "h": []int{-1, -1, -1, -1}})
		emit(ev)
		// the remaining modes of this case are still run (a crash with recovery on and one without are different findings)
		if mi := strings.Index("abc", mode); mi < 2 {
			start, skipModes = cur, mi+1
		} else {
			start, skipModes = cur+1, 0
		}
		if crashes+hangs >= *maxCrash && start < len(work) {
			ev, _ := json.Marshal(vh.M{"op": "abort", "sc": start, "left": len(work) - start})
			emit(ev)
			aborted = true
			break
		}
	}
	tw.Flush()
	f.Close()
	st, _ := json.Marshal(vh.M{"items": len(work), "events": events, "crashes": crashes, "hangs": hangs, "aborted": aborted, "died_with": append([]string{}, crashTexts...)})
	fmt.Println(string(st))
	if hangs > 0 {
		os.Exit(3)
	}
}

// tail keeps the first and the last part of the child's stderr
type tail struct {
	head, last []byte
}

func (t *tail) Write(p []byte) (int, error) {
	if len(t.head) < 8192 {
		n := 8192 - len(t.head)
		if n > len(p) {
			n = len(p)
		}
		t.head = append(t.head, p[:n]...)
	}
	t.last = append(t.last, p...)
	if len(t.last) > 8192 {
		t.last = t.last[len(t.last)-8192:]
	}
	return len(p), nil
}
func (t *tail) String() string { return string(t.head) + "\n...\n" + string(t.last) }
func (t *tail) fatalLine() string {
	for _, l := range strings.Split(string(t.head), "\n") {
		if strings.HasPrefix(l, "fatal error:") {
			return trim(l)
		}
	}
	for _, l := range strings.Split(string(t.head), "\n") {
		if strings.HasPrefix(l, "panic:") || strings.Contains(l, "out of memory") || strings.HasPrefix(l, "runtime: goroutine stack exceeds") {
			return trim(l)
		}
	}
	return "child exited"
}

var _ = io.EOF
