// tcpfsm: replays packet sequences (exported by TLC from TcpFSMMC.tla, or seeded random ones beyond its
// bound) on the real reassembly.TCPSimpleFSM and reassembly.TCPOptionCheck and records, per packet,
// accepted/rejected and the resulting state.  Validated by TLC (TcpFSMTrace.tla) against the Impl and the
// Prop layer of TcpFSM.tla.  X21FSM.  (reassembly registers flags: never import tcpassembly here.)
package main

import (
	"bufio"
	"encoding/binary"
	"encoding/json"
	"flag"
	"fmt"
	"os"
	"reflect"
	"sync/atomic"
	"time"

	"github.com/gopacket/gopacket"
	"github.com/gopacket/gopacket/layers"
	"github.com/gopacket/gopacket/reassembly"
	"verif/harness/vh"
)

type pkt struct {
	k string
	d int
}

type optOp struct {
	D    int  `json:"d"`
	Syn  bool `json:"syn"`
	Mss  int  `json:"mss"`
	Ws   int  `json:"ws"`
	Win  int  `json:"win"`
	Len  int  `json:"len"`
	Has  bool `json:"has"`
	Diff int  `json:"diff"`
}

type scenario struct {
	T   string          `json:"t"`
	Sme bool            `json:"sme"`
	Pk  [][]interface{} `json:"pk"`
	Pre [][]interface{} `json:"pre"`
	Ext [][]interface{} `json:"ext"`
	Ops []optOp         `json:"ops"`
}

var progress atomic.Int64
var nobs int

// watchdog: a scenario of a few dozen calls that does not finish in 15 s is a hang of the library
func watchdog(tr *vh.Trace) {
	last, stuck := int64(-1), 0
	for {
		time.Sleep(1 * time.Second)
		cur := progress.Load()
		if cur == last {
			stuck++
		} else {
			last, stuck = cur, 0
		}
		if stuck >= 15 && cur > 0 {
			tr.Emit(vh.M{"op": "hang", "sc": int(cur)})
			tr.Close()
			fmt.Printf("{\"scenarios\":%d,\"events\":%d,\"hang\":true}\n", cur, tr.N)
			os.Exit(3)
		}
	}
}

func dirOf(d int) reassembly.TCPFlowDirection {
	if d == 0 {
		return reassembly.TCPDirClientToServer
	}
	return reassembly.TCPDirServerToClient
}

// segment of the FSM alphabet; sequence numbers are plausible but irrelevant (the FSM ignores them)
func mkTCP(k string, d int, n int) *layers.TCP {
	t := &layers.TCP{SrcPort: 40000, DstPort: 80, Seq: uint32(1000 + n), Ack: uint32(5000 + n), Window: 1024}
	if d == 1 {
		t.SrcPort, t.DstPort, t.Seq, t.Ack = 80, 40000, uint32(5000+n), uint32(1000+n)
	}
	t.Payload = []byte{}
	switch k {
	case "S":
		t.SYN = true
	case "SA":
		t.SYN, t.ACK = true, true
	case "A":
		t.ACK = true
	case "AD":
		t.ACK = true
		t.Payload = []byte{0x42}
	case "FA":
		t.FIN, t.ACK = true, true
	case "R":
		t.RST = true
	case "F":
		t.FIN = true
	case "RA":
		t.RST, t.ACK = true, true
	case "N":
	default:
		vh.Fatal("unknown packet kind", k)
	}
	return t
}

// the unexported direction of the FSM, if the field still exists: 0/1, else 2 (not observable)
func fsmDir(f *reassembly.TCPSimpleFSM) int {
	v := reflect.ValueOf(f).Elem().FieldByName("dir")
	if !v.IsValid() || v.Kind() != reflect.Bool {
		return 2
	}
	if v.Bool() {
		return 1
	}
	return 0
}

func runFSM(tr *vh.Trace, sc int, sme bool, pk []pkt) {
	progress.Store(int64(sc))
	evs := []vh.M{}
	defer func() { tr.Emit(vh.M{"op": "fsm", "sc": sc, "sme": sme, "ev": evs}); nobs += len(evs) }()
	opt := reassembly.TCPSimpleFSMOptions{SupportMissingEstablishment: sme}
	a, b := reassembly.NewTCPSimpleFSM(opt), reassembly.NewTCPSimpleFSM(opt)
	for i, p := range pk {
		var ra, rb bool
		_, _, pb := vh.Guard(func() { rb = b.CheckState(mkTCP(p.k, p.d, i), dirOf(p.d)) })
		msg, site, pa := vh.Guard(func() { ra = a.CheckState(mkTCP(p.k, p.d, i), dirOf(p.d)) })
		ev := vh.M{"k": p.k, "d": p.d, "state": a.String(), "dir": fsmDir(a),
			"det": ra == rb && pa == pb && a.String() == b.String() && fsmDir(a) == fsmDir(b)}
		switch {
		case pa:
			ev["res"] = "panic"
			ev["msg"] = msg
			ev["site"] = site
		case ra:
			ev["res"] = "acc"
		default:
			ev["res"] = "rej"
		}
		evs = append(evs, ev)
		if pa {
			return
		}
	}
}

var bases = []uint32{1000, 0xFFFFFFFE, 1, 0x7FFFFFFF}

func mkOpt(o optOp, variant int, base uint32) (*layers.TCP, reassembly.Sequence) {
	t := &layers.TCP{SrcPort: 40000, DstPort: 80, Window: uint16(o.Win), ACK: !o.Syn}
	if o.D == 1 {
		t.SrcPort, t.DstPort = 80, 40000
	}
	t.SYN = o.Syn
	t.Payload = make([]byte, o.Len)
	var mssO, wsO []layers.TCPOption
	switch {
	case o.Mss == -2: // wrong data length: 1 or 3 bytes
		n := 1 + 2*(variant%2)
		mssO = []layers.TCPOption{{OptionType: layers.TCPOptionKindMSS, OptionLength: uint8(2 + n), OptionData: make([]byte, n)}}
	case o.Mss >= 0:
		b := make([]byte, 2)
		binary.BigEndian.PutUint16(b, uint16(o.Mss))
		mssO = []layers.TCPOption{{OptionType: layers.TCPOptionKindMSS, OptionLength: 4, OptionData: b}}
	}
	switch {
	case o.Ws == -2: // wrong data length: 0 or 2 bytes
		n := 2 * (variant % 2)
		wsO = []layers.TCPOption{{OptionType: layers.TCPOptionKindWindowScale, OptionLength: uint8(2 + n), OptionData: make([]byte, n)}}
	case o.Ws >= 0:
		wsO = []layers.TCPOption{{OptionType: layers.TCPOptionKindWindowScale, OptionLength: 3, OptionData: []byte{byte(o.Ws)}}}
	}
	if variant%3 == 0 { // options the checker must ignore
		t.Options = append(t.Options, layers.TCPOption{OptionType: layers.TCPOptionKindNop, OptionLength: 1},
			layers.TCPOption{OptionType: layers.TCPOptionKindSACKPermitted, OptionLength: 2})
	}
	if (variant/2)%2 == 0 {
		t.Options = append(append(t.Options, mssO...), wsO...)
	} else {
		t.Options = append(append(t.Options, wsO...), mssO...)
	}
	next := reassembly.Sequence(-1) // invalidSequence
	t.Seq = base + 7
	if o.Has {
		next = reassembly.Sequence(base)
		t.Seq = base + uint32(int32(o.Diff))
	}
	return t, next
}

func runOpt(tr *vh.Trace, sc int, ops []optOp, variant int) {
	progress.Store(int64(sc))
	evs := []vh.M{}
	defer func() { tr.Emit(vh.M{"op": "opt", "sc": sc, "ev": evs}); nobs += len(evs) }()
	a, b := reassembly.NewTCPOptionCheck(), reassembly.NewTCPOptionCheck()
	for i, o := range ops {
		base := bases[(variant+i)%len(bases)]
		var ea, eb error
		start := false
		ta, na := mkOpt(o, variant, base)
		tb, nb := mkOpt(o, variant, base)
		_, _, pb := vh.Guard(func() { eb = b.Accept(tb, gopacket.CaptureInfo{}, dirOf(o.D), nb, &start) })
		msg, site, pa := vh.Guard(func() { ea = a.Accept(ta, gopacket.CaptureInfo{}, dirOf(o.D), na, &start) })
		ev := vh.M{"d": o.D, "syn": o.Syn, "mss": o.Mss, "ws": o.Ws, "win": o.Win, "len": o.Len,
			"has": o.Has, "diff": o.Diff, "det": pa == pb && (ea == nil) == (eb == nil)}
		switch {
		case pa:
			ev["res"] = "panic"
			ev["msg"] = msg
			ev["site"] = site
		case ea == nil:
			ev["res"] = "acc"
		default:
			ev["res"] = "rej"
			ev["msg"] = ea.Error()
		}
		evs = append(evs, ev)
		if pa {
			return
		}
	}
}

func pkts(raw [][]interface{}) []pkt {
	out := make([]pkt, 0, len(raw)+1)
	for _, r := range raw {
		out = append(out, pkt{k: r[0].(string), d: int(r[1].(float64))})
	}
	return out
}

var kindsX = []string{"S", "SA", "A", "AD", "FA", "R", "A", "AD", "FA", "F", "RA", "N"}

// random conversations beyond the bound: a legal skeleton with random insertions, or pure noise
func randomFSM(r *vh.Rand) []pkt {
	var p []pkt
	c := r.Intn(2)
	if r.Intn(3) > 0 {
		p = append(p, pkt{"S", c}, pkt{"SA", 1 - c}, pkt{"A", c})
		for i := r.Intn(12); i > 0; i-- {
			p = append(p, pkt{[]string{"A", "AD"}[r.Intn(2)], r.Intn(2)})
		}
		x := r.Intn(2)
		p = append(p, pkt{"FA", x})
		for i := r.Intn(4); i > 0; i-- {
			p = append(p, pkt{[]string{"A", "AD"}[r.Intn(2)], 1 - x})
		}
		p = append(p, pkt{"FA", 1 - x}, pkt{"A", x})
		for i := r.Intn(4); i > 0; i-- { // noise anywhere
			at := r.Intn(len(p) + 1)
			p = append(p[:at], append([]pkt{{kindsX[r.Intn(len(kindsX))], r.Intn(2)}}, p[at:]...)...)
		}
		return p
	}
	for i := 8 + r.Intn(30); i > 0; i-- {
		p = append(p, pkt{kindsX[r.Intn(len(kindsX))], r.Intn(2)})
	}
	return p
}

func pick(r *vh.Rand, v []int) int { return v[r.Intn(len(v))] }

func randomOpt(r *vh.Rand) []optOp {
	var ops []optOp
	for i := 4 + r.Intn(9); i > 0; i-- {
		o := optOp{D: r.Intn(2), Win: pick(r, []int{0, 1, 229, 1460, 65535}), Mss: -1, Ws: -1}
		if r.Intn(4) == 0 {
			o.Syn = true
			o.Mss = pick(r, []int{-2, -1, -1, 0, 536, 1460})
			o.Ws = pick(r, []int{-2, -1, -1, 0, 7, 14})
			o.Len = pick(r, []int{0, 0, 0, 10})
			o.Has = r.Intn(4) == 0
		} else {
			o.Len = pick(r, []int{0, 1, 2, 536, 537, 1460, 1461, 3000})
			o.Has = r.Intn(6) != 0
		}
		if o.Has {
			o.Diff = pick(r, []int{-3000, -1461, -1460, -537, -2, -1, 0, 0, 0, 1, 228, 229, 230, 1460, 1461, 65535, 65536, 100000})
		}
		ops = append(ops, o)
	}
	return ops
}

func main() {
	in := flag.String("scenarios", "", "ndjson of TLC-exported behaviours")
	out := flag.String("trace", "trace.ndjson", "trace output")
	nrand := flag.Int("rand", 0, "random scenarios per machine")
	seed := flag.Uint64("seed", 1, "seed")
	flag.Parse()
	tr := vh.NewTrace(*out)
	go watchdog(tr)
	sc, nf, no := 0, 0, 0
	if *in != "" {
		f, err := os.Open(*in)
		if err != nil {
			vh.Fatal(err)
		}
		rd := bufio.NewScanner(f)
		rd.Buffer(make([]byte, 1<<20), 1<<24)
		for rd.Scan() {
			var s scenario
			if err := json.Unmarshal(rd.Bytes(), &s); err != nil {
				vh.Fatal("bad scenario", err, string(rd.Bytes()))
			}
			switch {
			case s.T == "fsm" && s.Ext != nil: // a prefix with its whole fan-out
				pre := pkts(s.Pre)
				for _, x := range pkts(s.Ext) {
					sc++
					nf++
					runFSM(tr, sc, s.Sme, append(pre[:len(pre):len(pre)], x))
				}
			case s.T == "fsm":
				sc++
				nf++
				runFSM(tr, sc, s.Sme, pkts(s.Pk))
			case s.T == "opt":
				sc++
				no++
				runOpt(tr, sc, s.Ops, sc+int(*seed))
			default:
				vh.Fatal("unknown scenario type", s.T)
			}
		}
	}
	r := vh.NewRand(*seed)
	for i := 0; i < *nrand; i++ {
		sc++
		nf++
		runFSM(tr, sc, r.Intn(2) == 0, randomFSM(r))
		sc++
		no++
		runOpt(tr, sc, randomOpt(r), r.Intn(1000))
	}
	tr.Close()
	fmt.Printf("{\"scenarios\":%d,\"lines\":%d,\"observations\":%d,\"fsm\":%d,\"opt\":%d}\n", sc, tr.N, nobs, nf, no)
}
