package main

// Scripted decoders: the input bytes ARE the script of Packet.tla (one step code per layer).
// Real gopacket.Decoder implementations interpret them against the real PacketBuilder.

import (
	"errors"
	"fmt"

	"github.com/gopacket/gopacket"
)

const typeBase = 1990

var scriptTypes [6]gopacket.LayerType // index = model layer type 1..5

type sLayer struct {
	t        gopacket.LayerType
	contents []byte
	payload  []byte
}

func (l *sLayer) LayerType() gopacket.LayerType { return l.t }
func (l *sLayer) LayerContents() []byte         { return l.contents }
func (l *sLayer) LayerPayload() []byte          { return l.payload }

type sLink struct{ sLayer }

func (l *sLink) LinkFlow() gopacket.Flow { return gopacket.Flow{} }

type sNet struct{ sLayer }

func (l *sNet) NetworkFlow() gopacket.Flow { return gopacket.Flow{} }

type sTrans struct{ sLayer }

func (l *sTrans) TransportFlow() gopacket.Flow { return gopacket.Flow{} }

type sApp struct{ sLayer }

func (l *sApp) Payload() []byte { return l.payload }

var errScript = errors.New("scripted decode error")

func decodeScript(data []byte, p gopacket.PacketBuilder) error {
	c := int(data[0])
	kind, out, trunc := c/16, (c%16)/2, c%2 == 1
	if trunc {
		p.SetTruncated()
	}
	add := func() {
		base := sLayer{t: scriptTypes[kind+1], contents: data[:1], payload: data[1:]}
		switch kind {
		case 1:
			l := &sLink{base}
			p.AddLayer(l)
			p.SetLinkLayer(l)
		case 2:
			l := &sNet{base}
			p.AddLayer(l)
			p.SetNetworkLayer(l)
		case 3:
			l := &sTrans{base}
			p.AddLayer(l)
			p.SetTransportLayer(l)
		case 4:
			l := &sApp{base}
			p.AddLayer(l)
			p.SetApplicationLayer(l)
		default:
			l := &base
			p.AddLayer(l)
		}
	}
	switch out {
	case 0:
		add()
		return p.NextDecoder(gopacket.DecodeFunc(decodeScript))
	case 1:
		add()
		return nil
	case 2:
		return errScript
	case 3:
		add()
		return errScript
	case 4:
		panic("scripted panic")
	case 5:
		add()
		panic("scripted panic after add")
	case 6:
		add()
		return p.NextDecoder(nil)
	}
	return fmt.Errorf("bad step code %d", c)
}

func init() {
	for t := 1; t <= 5; t++ {
		scriptTypes[t] = gopacket.RegisterLayerType(typeBase+t, gopacket.LayerTypeMetadata{
			Name: fmt.Sprintf("Script%d", t), Decoder: gopacket.DecodeFunc(decodeScript)})
	}
}

// modelType maps a real layer type back to the model's 1..6
func modelType(t gopacket.LayerType) int {
	if t == gopacket.LayerTypeDecodeFailure {
		return 6
	}
	for i := 1; i <= 5; i++ {
		if scriptTypes[i] == t {
			return i
		}
	}
	return -1
}

func realType(m int) gopacket.LayerType {
	if m == 6 {
		return gopacket.LayerTypeDecodeFailure
	}
	return scriptTypes[m]
}

func classOf(c int) gopacket.LayerClass {
	if c == 1 {
		return gopacket.NewLayerClass([]gopacket.LayerType{scriptTypes[3], scriptTypes[4]})
	}
	return gopacket.NewLayerClass([]gopacket.LayerType{scriptTypes[1], scriptTypes[5], gopacket.LayerTypeDecodeFailure})
}
