// pkt: conformance driver for the packet builder (Packet.tla): C01, C03.
//
//	-mode script : replays TLC-exported (script, accessor program) pairs on a real lazy and a real
//	               eager packet built from the same bytes with scripted decoders.
package main

import (
	"bufio"
	"bytes"
	"encoding/json"
	"flag"
	"fmt"
	"os"
	"reflect"

	"github.com/gopacket/gopacket"
	"verif/harness/vh"
)

type scen struct {
	Script []int           `json:"script"`
	Prog   [][]interface{} `json:"prog"`
}

// one accessor call; returns the raw layer (or nil) / layer list, and the rendered string
type callRes struct {
	layer  gopacket.Layer
	isList bool
	list   []gopacket.Layer
	trunc  bool
	str    string
	hasStr bool
}

func isNil(l interface{}) bool {
	if l == nil {
		return true
	}
	v := reflect.ValueOf(l)
	return v.Kind() == reflect.Ptr && v.IsNil()
}

func call(p gopacket.Packet, name string, arg int) callRes {
	switch name {
	case "Layers":
		ls := p.Layers()
		return callRes{isList: true, list: ls, trunc: p.Metadata().Truncated}
	case "String":
		s := p.String()
		return callRes{isList: true, list: p.Layers(), trunc: p.Metadata().Truncated, str: s, hasStr: true}
	case "Dump":
		_ = p.Dump() // Dump of a DecodeFailure carries the recovery stack trace, which legitimately differs: not compared
		return callRes{isList: true, list: p.Layers(), trunc: p.Metadata().Truncated}
	case "Link":
		if l := p.LinkLayer(); !isNil(l) {
			return callRes{layer: l}
		}
	case "Net":
		if l := p.NetworkLayer(); !isNil(l) {
			return callRes{layer: l}
		}
	case "Trans":
		if l := p.TransportLayer(); !isNil(l) {
			return callRes{layer: l}
		}
	case "App":
		if l := p.ApplicationLayer(); !isNil(l) {
			return callRes{layer: l}
		}
	case "Err":
		if l := p.ErrorLayer(); !isNil(l) {
			return callRes{layer: l}
		}
	case "Layer":
		if l := p.Layer(realType(arg)); !isNil(l) {
			return callRes{layer: l}
		}
	case "Class":
		if l := p.LayerClass(classOf(arg)); !isNil(l) {
			return callRes{layer: l}
		}
	default:
		vh.Fatal("unknown accessor", name)
	}
	return callRes{}
}

func indexOf(ls []gopacket.Layer, l gopacket.Layer) int {
	if l == nil {
		return 0
	}
	for i, x := range ls {
		if x == l {
			return i + 1
		}
	}
	return -1 // a layer that is not in Layers(): never allowed
}

func types(ls []gopacket.Layer) []int {
	r := make([]int, len(ls))
	for i, l := range ls {
		r[i] = modelType(l.LayerType())
	}
	return r
}

func sameLayer(a, b gopacket.Layer) bool {
	if a == nil || b == nil {
		return a == nil && b == nil
	}
	if a.LayerType() != b.LayerType() || !bytes.Equal(a.LayerContents(), b.LayerContents()) ||
		!bytes.Equal(a.LayerPayload(), b.LayerPayload()) {
		return false
	}
	if ea, ok := a.(gopacket.ErrorLayer); ok {
		eb, ok2 := b.(gopacket.ErrorLayer)
		if !ok2 || ea.Error().Error() != eb.Error().Error() {
			return false
		}
	}
	return true
}

func final(p gopacket.Packet) vh.M {
	ls := p.Layers()
	return vh.M{"types": types(ls), "link": indexOf(ls, p.LinkLayer()), "net": indexOf(ls, p.NetworkLayer()),
		"trans": indexOf(ls, p.TransportLayer()), "app": indexOf(ls, p.ApplicationLayer()),
		"fail": indexOf(ls, p.ErrorLayer()), "trunc": p.Metadata().Truncated}
}

func runScript(tr *vh.Trace, sc int, s scen, opts gopacket.DecodeOptions) {
	data := make([]byte, len(s.Script))
	for i, c := range s.Script {
		data[i] = byte(c)
	}
	ev := vh.M{"op": "scr", "sc": sc, "script": s.Script, "nocopy": opts.NoCopy, "dsad": opts.DecodeStreamsAsDatagrams}
	msg, site, panicked := vh.Guard(func() {
		lo, eo := opts, opts
		lo.Lazy = true
		eo.Lazy = false
		lz := gopacket.NewPacket(data, gopacket.DecodeFunc(decodeScript), lo)
		eg := gopacket.NewPacket(data, gopacket.DecodeFunc(decodeScript), eo)
		var lres, eres []callRes
		var prog [][]interface{}
		for _, a := range s.Prog {
			name := a[0].(string)
			arg := int(a[1].(float64))
			prog = append(prog, []interface{}{name, arg})
			lres = append(lres, call(lz, name, arg))
			eres = append(eres, call(eg, name, arg))
		}
		// resolve layer identities to indexes only now (Layers() forces the complete decode)
		ll, el := lz.Layers(), eg.Layers()
		var lj, ej []interface{}
		same := true
		for i := range lres {
			l, e := lres[i], eres[i]
			if l.isList {
				lj = append(lj, vh.M{"k": "ls", "v": types(l.list), "t": l.trunc})
				ej = append(ej, vh.M{"k": "ls", "v": types(e.list), "t": e.trunc})
				if len(l.list) != len(e.list) {
					same = false
				} else {
					for j := range l.list {
						if !sameLayer(l.list[j], e.list[j]) {
							same = false
						}
					}
				}
				if l.hasStr && l.str != e.str {
					same = false
				}
			} else {
				lj = append(lj, vh.M{"k": "ix", "v": indexOf(ll, l.layer)})
				ej = append(ej, vh.M{"k": "ix", "v": indexOf(el, e.layer)})
				if !sameLayer(l.layer, e.layer) {
					same = false
				}
			}
		}
		if len(ll) != len(el) {
			same = false
		} else {
			for j := range ll {
				if !sameLayer(ll[j], el[j]) {
					same = false
				}
			}
		}
		if lz.String() != eg.String() {
			same = false
		}
		if !bytes.Equal(data, lz.Data()) || !bytes.Equal(data, eg.Data()) {
			same = false
		}
		ev["prog"] = prog
		ev["lazy"] = lj
		ev["eager"] = ej
		ev["same"] = same
		ev["lfin"] = final(lz)
		ev["efin"] = final(eg)
	})
	if panicked {
		tr.Emit(vh.M{"op": "panic", "sc": sc, "script": s.Script, "msg": msg, "site": site})
		return
	}
	if ev["prog"] == nil {
		ev["prog"] = [][]interface{}{}
		ev["lazy"] = []interface{}{}
		ev["eager"] = []interface{}{}
	}
	tr.Emit(ev)
}

func main() {
	mode := flag.String("mode", "script", "script | real")
	nreal := flag.Int("n", 1000, "real mode: number of cases")
	seed := flag.Uint64("seed", 1, "seed")
	what := flag.String("what", "dec,lz,raw", "real mode: event kinds")
	maxlen := flag.Int("maxlen", 9000, "real mode: max input length")
	enum := flag.String("enum", "", "real mode: k/n/stride - this process runs the enumerated structural cases with index % n == k (common outer starts thinned to every stride-th)")
	in := flag.String("scenarios", "", "ndjson scenarios")
	out := flag.String("trace", "trace.ndjson", "trace output")
	flag.Parse()
	tr := vh.NewTrace(*out)
	n := 0
	switch *mode {
	case "script":
		f, err := os.Open(*in)
		if err != nil {
			vh.Fatal(err)
		}
		rd := bufio.NewScanner(f)
		rd.Buffer(make([]byte, 1<<20), 1<<24)
		optsets := []gopacket.DecodeOptions{{}, {NoCopy: true}, {DecodeStreamsAsDatagrams: true}, {NoCopy: true, DecodeStreamsAsDatagrams: true}}
		for rd.Scan() {
			var s scen
			if err := json.Unmarshal(rd.Bytes(), &s); err != nil {
				vh.Fatal("bad scenario", err)
			}
			n++
			runScript(tr, n, s, optsets[n%4])
		}
	case "real":
		cfg := realCfg{n: *nreal, seed: *seed, what: *what, maxlen: *maxlen, curFile: *out + ".cur"}
		if *enum != "" {
			if _, err := fmt.Sscanf(*enum, "%d/%d/%d", &cfg.enumK, &cfg.enumN, &cfg.enumStride); err != nil {
				vh.Fatal("bad -enum", *enum)
			}
		}
		n = runReal(tr, cfg)
	default:
		vh.Fatal("unknown mode")
	}
	tr.Close()
	fmt.Printf("{\"scenarios\":%d,\"events\":%d}\n", n, tr.N)
}
