package main

// Real-decoder conformance: fixtures and structural mutations decoded by the real layer decoders.
//   event "dec" (C01): NewPacket with recovery on + every read-only accessor, each under recover
//   event "lz"  (C03): a random accessor program on a lazy and an eager packet of the same bytes
//   event "raw" (C19): the three non-recovering paths (DecodeFromBytes, SkipDecodeRecovery, parser IgnorePanic)

import (
	"bytes"
	"fmt"
	"os"
	"reflect"
	"sort"
	"strings"
	"sync/atomic"
	"time"

	"github.com/gopacket/gopacket"
	"github.com/gopacket/gopacket/layers"
	"verif/harness/corpus"
	"verif/harness/dl"
	"verif/harness/vh"
)

var curCase atomic.Value // string: description of the case being executed (for hang / crash attribution)

type realCfg struct {
	n       int
	seed    uint64
	what    string // "dec", "lz", "raw" or comma list
	maxlen  int
	curFile string
	// enumerated structural cases (corpus.TrailingLengthCases): this process takes those with index % enumN == enumK;
	// cases starting at one of the common outer layers are thinned to every enumStride-th (0: no enumerated cases)
	enumK, enumN, enumStride int
}

func optName(o gopacket.DecodeOptions) string {
	s := ""
	if o.Lazy {
		s += "L"
	}
	if o.NoCopy {
		s += "N"
	}
	if o.Pool {
		s += "P"
	}
	if o.DecodeStreamsAsDatagrams {
		s += "D"
	}
	if s == "" {
		s = "-"
	}
	return s
}

type panicRec struct {
	Acc  string `json:"acc"`
	Site string `json:"site"`
	Msg  string `json:"msg"`
}

func guardAcc(name string, recs *[]panicRec, f func()) {
	msg, site, p := vh.Guard(f)
	if p {
		if len(msg) > 120 {
			msg = msg[:120]
		}
		*recs = append(*recs, panicRec{Acc: name, Site: vh.SiteSig(corpus.Repo(), site), Msg: msg})
	}
}

func setNetForChecksum(p gopacket.Packet) {
	var net gopacket.NetworkLayer
	for _, l := range p.Layers() {
		if n, ok := l.(gopacket.NetworkLayer); ok {
			switch n.(type) {
			case *layers.IPv4, *layers.IPv6:
				net = n
			}
			continue
		}
		if s, ok := l.(interface {
			SetNetworkLayerForChecksum(gopacket.NetworkLayer) error
		}); ok && net != nil {
			s.SetNetworkLayerForChecksum(net)
		}
	}
}

// decEvent: C01
func decEvent(tr *vh.Trace, sc int, name string, data []byte, first gopacket.LayerType, opts gopacket.DecodeOptions) {
	var recs []panicRec
	var p gopacket.Packet
	orig := append([]byte(nil), data...)
	guardAcc("NewPacket", &recs, func() { p = gopacket.NewPacket(data, first, opts) })
	ev := vh.M{"op": "dec", "sc": sc, "in": name, "len": len(data), "first": first.String(), "opts": optName(opts)}
	if p == nil {
		ev["panics"] = recs
		ev["nl"] = 0
		ev["failIdx"] = 0
		ev["failPos"] = []int{}
		ev["errFirst"] = -1
		ev["sig"] = sigOf(recs, "NewPacket")
		tr.Emit(ev)
		return
	}
	var ls []gopacket.Layer
	guardAcc("Layers", &recs, func() { ls = p.Layers() })
	guardAcc("String", &recs, func() { _ = p.String() })
	guardAcc("Dump", &recs, func() { _ = p.Dump() })
	guardAcc("LinkLayer", &recs, func() {
		if l := p.LinkLayer(); !isNil(l) {
			useFlow(l.LinkFlow())
		}
	})
	guardAcc("NetworkLayer", &recs, func() {
		if l := p.NetworkLayer(); !isNil(l) {
			useFlow(l.NetworkFlow())
		}
	})
	guardAcc("TransportLayer", &recs, func() {
		if l := p.TransportLayer(); !isNil(l) {
			useFlow(l.TransportFlow())
		}
	})
	guardAcc("ApplicationLayer", &recs, func() {
		if l := p.ApplicationLayer(); !isNil(l) {
			_ = l.Payload()
		}
	})
	var el gopacket.ErrorLayer
	guardAcc("ErrorLayer", &recs, func() {
		el = p.ErrorLayer()
		if !isNil(el) {
			_ = el.Error().Error()
		}
	})
	guardAcc("Data", &recs, func() { _ = p.Data(); _ = p.Metadata() })
	for i, l := range ls {
		l := l
		tn := "?"
		guardAcc("LayerType", &recs, func() { tn = l.LayerType().String() })
		guardAcc("Layer("+tn+")", &recs, func() { _ = p.Layer(l.LayerType()); _ = p.LayerClass(l.LayerType()) })
		guardAcc("LayerString("+tn+")", &recs, func() { _ = gopacket.LayerString(l) })
		guardAcc("LayerDump("+tn+")", &recs, func() { _ = gopacket.LayerDump(l) })
		guardAcc("LayerGoString("+tn+")", &recs, func() { _ = gopacket.LayerGoString(l) })
		guardAcc("Contents("+tn+")", &recs, func() { _ = l.LayerContents(); _ = l.LayerPayload() })
		_ = i
	}
	guardAcc("VerifyChecksums", &recs, func() { _, _ = p.VerifyChecksums() })
	guardAcc("VerifyChecksums+net", &recs, func() { setNetForChecksum(p); _, _ = p.VerifyChecksums() })
	failIdx := 0
	failPos := []int{}
	for i, l := range ls {
		if _, ok := l.(*gopacket.DecodeFailure); ok || l.LayerType() == gopacket.LayerTypeDecodeFailure {
			failPos = append(failPos, i+1)
		}
		if !isNil(el) && l == gopacket.Layer(el) {
			failIdx = i + 1
		}
	}
	if !isNil(el) && failIdx == 0 {
		failIdx = -1
	}
	// "the packet says so" must not depend on which accessor asks first: a second lazy packet is asked for its
	// error layer before anything else (-1: not measured, 0: nil, 1: non-nil)
	errFirst := -1
	if opts.Lazy {
		guardAcc("ErrorLayer-first", &recs, func() {
			p2 := gopacket.NewPacket(data, first, opts)
			errFirst = 0
			if !isNil(p2.ErrorLayer()) {
				errFirst = 1
			}
			if pp, ok := p2.(gopacket.PooledPacket); ok {
				pp.Dispose()
			}
		})
	}
	ev["errFirst"] = errFirst
	ev["panics"] = recs
	ev["nl"] = len(ls)
	ev["failIdx"] = failIdx
	ev["failPos"] = failPos
	ev["inputIntact"] = bytes.Equal(orig, data)
	ev["sig"] = sigOf(recs, "")
	if pp, ok := p.(gopacket.PooledPacket); ok {
		pp.Dispose()
	}
	tr.Emit(ev)
}

// useFlow: everything a reader does with a flow (the endpoints of a layer that failed to decode may be empty)
func useFlow(f gopacket.Flow) {
	a, b := f.Endpoints()
	_, _, _ = a.String(), b.String(), f.String()
	_, _, _ = f.FastHash(), a.FastHash(), b.LessThan(a)
	_ = f.Reverse().String()
}

func sigOf(recs []panicRec, dflt string) string {
	if len(recs) == 0 {
		return dflt
	}
	return recs[0].Acc + "|" + recs[0].Site
}

// generic accessor programs for real packets
func lzEvent(tr *vh.Trace, sc int, name string, data []byte, first gopacket.LayerType, opts gopacket.DecodeOptions, r *vh.Rand) {
	ev := vh.M{"op": "lz", "sc": sc, "in": name, "len": len(data), "first": first.String(), "opts": optName(opts)}
	var prog []string
	diff := ""
	msg, site, panicked := vh.Guard(func() {
		lo, eo := opts, opts
		lo.Lazy, eo.Lazy = true, false
		lo.Pool, eo.Pool = false, false
		eg := gopacket.NewPacket(data, first, eo)
		lz := gopacket.NewPacket(data, first, lo)
		// candidate types: those present in the eager packet + a few others
		var cand []gopacket.LayerType
		for _, l := range eg.Layers() {
			cand = append(cand, l.LayerType())
		}
		cand = append(cand, gopacket.LayerTypeDecodeFailure, gopacket.LayerTypePayload, layers.LayerTypeTCP, layers.LayerTypeIPv6, layers.LayerTypeUDP)
		classes := []gopacket.LayerClass{layers.LayerClassIPNetwork, layers.LayerClassIPTransport, layers.LayerClassIPControl,
			gopacket.NewLayerClass(cand[:1+r.Intn(len(cand))])}
		n := 1 + r.Intn(4)
		for i := 0; i < n && diff == ""; i++ {
			k := r.Intn(10)
			var a, b gopacket.Layer
			list := false
			var nm string
			switch k {
			case 0:
				nm = "Layers"
				list = true
			case 1:
				t := cand[r.Intn(len(cand))]
				nm = "Layer(" + t.String() + ")"
				a, b = lz.Layer(t), eg.Layer(t)
			case 2:
				ci := r.Intn(len(classes))
				nm = fmt.Sprintf("LayerClass(%d)", ci)
				a, b = lz.LayerClass(classes[ci]), eg.LayerClass(classes[ci])
			case 3:
				nm = "LinkLayer"
				if x := lz.LinkLayer(); !isNil(x) {
					a = x
				}
				if x := eg.LinkLayer(); !isNil(x) {
					b = x
				}
			case 4:
				nm = "NetworkLayer"
				if x := lz.NetworkLayer(); !isNil(x) {
					a = x
				}
				if x := eg.NetworkLayer(); !isNil(x) {
					b = x
				}
			case 5:
				nm = "TransportLayer"
				if x := lz.TransportLayer(); !isNil(x) {
					a = x
				}
				if x := eg.TransportLayer(); !isNil(x) {
					b = x
				}
			case 6:
				nm = "ApplicationLayer"
				if x := lz.ApplicationLayer(); !isNil(x) {
					a = x
				}
				if x := eg.ApplicationLayer(); !isNil(x) {
					b = x
				}
			case 7:
				nm = "ErrorLayer"
				if x := lz.ErrorLayer(); !isNil(x) {
					a = x
				}
				if x := eg.ErrorLayer(); !isNil(x) {
					b = x
				}
			case 8:
				nm = "String"
				if lz.String() != eg.String() {
					diff = nm
				}
				list = true
			case 9:
				nm = "Dump"
				_ = lz.Dump()
				list = true
			}
			prog = append(prog, nm)
			if list {
				la, lb := lz.Layers(), eg.Layers()
				if len(la) != len(lb) {
					diff = nm + ":count"
				} else {
					for j := range la {
						if !deepSame(la[j], lb[j]) {
							diff = fmt.Sprintf("%s:layer%d", nm, j)
							break
						}
					}
				}
				if lz.Metadata().Truncated != eg.Metadata().Truncated {
					diff = nm + ":truncated"
				}
			} else if !deepSame(a, b) {
				diff = nm
			}
		}
		if diff == "" {
			// finally everything must agree
			la, lb := lz.Layers(), eg.Layers()
			if len(la) != len(lb) {
				diff = "final:count"
			} else {
				for j := range la {
					if !deepSame(la[j], lb[j]) {
						diff = fmt.Sprintf("final:layer%d", j)
						break
					}
				}
			}
			if diff == "" && lz.String() != eg.String() {
				diff = "final:String"
			}
			if diff == "" && lz.Metadata().Truncated != eg.Metadata().Truncated {
				diff = "final:truncated"
			}
			chk := func(nm string, x, y interface{}) {
				if diff == "" && isNil(x) != isNil(y) {
					diff = "final:" + nm
				}
			}
			chk("link", lz.LinkLayer(), eg.LinkLayer())
			chk("net", lz.NetworkLayer(), eg.NetworkLayer())
			chk("trans", lz.TransportLayer(), eg.TransportLayer())
			chk("app", lz.ApplicationLayer(), eg.ApplicationLayer())
			chk("err", lz.ErrorLayer(), eg.ErrorLayer())
		}
	})
	ev["prog"] = prog
	ev["same"] = diff == "" && !panicked
	ev["diff"] = diff
	ev["sig"] = first.String() + "|" + strings.SplitN(diff, ":", 2)[0]
	if panicked {
		// a panic of an accessor is C01's subject (it hits lazy and eager alike); not a lazy/eager difference
		ev["same"] = true
		ev["diff"] = "panic:" + msg
		ev["sig"] = "panic|" + vh.SiteSig(corpus.Repo(), site)
	}
	tr.Emit(ev)
}

// deepSame: same layer type, contents, payload and exported field values
func deepSame(a, b gopacket.Layer) bool {
	if isNil(a) || isNil(b) {
		return isNil(a) && isNil(b)
	}
	if a.LayerType() != b.LayerType() || !bytes.Equal(a.LayerContents(), b.LayerContents()) || !bytes.Equal(a.LayerPayload(), b.LayerPayload()) {
		return false
	}
	if fa, ok := a.(*gopacket.DecodeFailure); ok {
		fb, ok2 := b.(*gopacket.DecodeFailure)
		return ok2 && fa.Error().Error() == fb.Error().Error()
	}
	return vh.Digest(a) == vh.Digest(b)
}

// rawEvent: C19 paths
func rawEvent(tr *vh.Trace, sc int, name string, data []byte, first gopacket.LayerType, dsad bool, dls map[string]gopacket.DecodingLayer, dlNames []string, r *vh.Rand) {
	emit := func(path, typ, outcome, site string) {
		sig := ""
		if outcome == "panic" {
			sig = path + "|" + site
		}
		tr.Emit(vh.M{"op": "raw", "sc": sc, "in": name, "len": len(data), "path": path, "type": typ, "dsad": dsad, "outcome": outcome, "sig": sig})
	}
	// path 1: NewPacket with SkipDecodeRecovery
	{
		outcome := "ok"
		_, site, p := vh.Guard(func() {
			pk := gopacket.NewPacket(data, first, gopacket.DecodeOptions{SkipDecodeRecovery: true, DecodeStreamsAsDatagrams: dsad, Lazy: r.Bool()})
			if pk.ErrorLayer() != nil {
				outcome = "err"
			}
			pk.Layers()
		})
		if p {
			outcome = "panic"
		}
		emit("skiprecovery", first.String(), outcome, vh.SiteSig(corpus.Repo(), site))
	}
	// path 2: DecodeFromBytes on a few DecodingLayer types (the one matching `first` if any + random ones)
	picks := []string{}
	fn := first.String()
	if _, ok := dls[fn]; ok {
		picks = append(picks, fn)
	}
	for i := 0; i < 3; i++ {
		picks = append(picks, dlNames[r.Intn(len(dlNames))])
	}
	for _, tn := range picks {
		d := dls[tn]
		outcome := "ok"
		_, site, p := vh.Guard(func() {
			if err := d.DecodeFromBytes(data, gopacket.NilDecodeFeedback); err != nil {
				outcome = "err"
			} else {
				_ = d.NextLayerType()
				_ = d.LayerPayload()
			}
		})
		if p {
			outcome = "panic"
			// the object may be in a half-written state: replace it
			dls[tn] = dl.New()[tn]
		}
		emit("decodefrombytes", tn, outcome, vh.SiteSig(corpus.Repo(), site))
	}
	// path 3: DecodingLayerParser with IgnorePanic over the common stack
	{
		var eth layers.Ethernet
		var d1q layers.Dot1Q
		var ip4 layers.IPv4
		var ip6 layers.IPv6
		var tcp layers.TCP
		var udp layers.UDP
		var dns layers.DNS
		var pay gopacket.Payload
		var icmp4 layers.ICMPv4
		var icmp6 layers.ICMPv6
		var gre layers.GRE
		var sctp layers.SCTP
		var arp layers.ARP
		ft := first
		switch ft {
		case layers.LayerTypeEthernet, layers.LayerTypeIPv4, layers.LayerTypeIPv6, layers.LayerTypeTCP, layers.LayerTypeUDP, layers.LayerTypeDNS, layers.LayerTypeGRE, layers.LayerTypeSCTP:
		default:
			ft = layers.LayerTypeEthernet
		}
		parser := gopacket.NewDecodingLayerParser(ft, &eth, &d1q, &ip4, &ip6, &tcp, &udp, &dns, &pay, &icmp4, &icmp6, &gre, &sctp, &arp)
		parser.IgnorePanic = true
		parser.IgnoreUnsupported = r.Bool()
		outcome := "ok"
		_, site, p := vh.Guard(func() {
			var decoded []gopacket.LayerType
			if err := parser.DecodeLayers(data, &decoded); err != nil {
				outcome = "err"
			}
		})
		if p {
			outcome = "panic"
		}
		emit("parser-ignorepanic", ft.String(), outcome, vh.SiteSig(corpus.Repo(), site))
	}
}

func runReal(tr *vh.Trace, cfg realCfg) int {
	fx := corpus.Load()
	types := corpus.RegisteredTypes()
	r := vh.NewRand(cfg.seed)
	dls := dl.New()
	var dlNames []string
	for k := range dls {
		dlNames = append(dlNames, k)
	}
	sort.Strings(dlNames)
	// watchdog: a single case must finish within 20 s ("bounded time")
	stop := make(chan struct{})
	var tick atomic.Int64
	go func() {
		last := int64(-1)
		stuck := 0
		for {
			select {
			case <-stop:
				return
			case <-time.After(2 * time.Second):
			}
			cur := tick.Load()
			if cur == last {
				stuck++
			} else {
				stuck = 0
				last = cur
			}
			if stuck >= 10 {
				desc, _ := curCase.Load().(string)
				tr.Emit(vh.M{"op": "hang", "sc": int(cur), "in": desc, "sig": "hang|" + desc})
				tr.Close()
				fmt.Printf("{\"scenarios\":%d,\"events\":%d,\"hang\":true}\n", cur, tr.N)
				os.Exit(3)
			}
		}
	}()
	want := map[string]bool{}
	for _, w := range strings.Split(cfg.what, ",") {
		want[w] = true
	}
	runCase := func(i int, name string, data []byte, first gopacket.LayerType, o int) {
		opts := gopacket.DecodeOptions{Lazy: o&1 != 0, NoCopy: o&2 != 0, Pool: o&4 != 0, DecodeStreamsAsDatagrams: o&8 != 0}
		curCase.Store(fmt.Sprintf("%s first=%s opts=%s len=%d", name, first, optName(opts), len(data)))
		tick.Store(int64(i))
		if cfg.curFile != "" && i%64 == 1 {
			os.WriteFile(cfg.curFile, []byte(curCase.Load().(string)), 0644)
		}
		if want["dec"] {
			decEvent(tr, i, name, data, first, opts)
		}
		if want["lz"] && len(data) > 0 {
			lzEvent(tr, i, name, data, first, opts, r)
		}
		if want["raw"] {
			rawEvent(tr, i, name, data, first, opts.DecodeStreamsAsDatagrams, dls, dlNames, r)
		}
	}
	for i := 1; i <= cfg.n; i++ {
		f := fx[r.Intn(len(fx))]
		data := f.Data
		name := f.Name
		if r.Intn(10) < 3 {
			if d2, m := corpus.LayerAware(r, f); d2 != nil {
				data, name = d2, name+"~"+m
			}
		} else if r.Intn(10) < 7 {
			var m string
			data, m = corpus.Mutate(r, data)
			name += "~" + m
			if r.Intn(4) == 0 {
				var m2 string
				data, m2 = corpus.Mutate(r, data)
				name += "~" + m2
			}
		}
		if len(data) > cfg.maxlen {
			data = data[:cfg.maxlen]
		}
		first := f.First
		switch r.Intn(10) {
		case 0, 1, 2, 3:
			first = types[r.Intn(len(types))]
		case 4:
			// start at an inner layer of the fixture: decode pristine and take a later layer's payload
			if pk := safePacket(f.Data, f.First); pk != nil {
				ls := pk.Layers()
				if len(ls) >= 2 {
					j := r.Intn(len(ls) - 1)
					if pl := ls[j].LayerPayload(); len(pl) > 0 && ls[j+1].LayerType() != gopacket.LayerTypeDecodeFailure {
						first = ls[j+1].LayerType()
						data = append([]byte(nil), pl...)
						name = f.Name + fmt.Sprintf("@layer%d", j+1)
						if r.Bool() {
							var m string
							data, m = corpus.Mutate(r, data)
							name += "~" + m
						}
					}
				}
			}
		}
		o := r.Intn(16)
		runCase(i, name, data, first, o)
	}
	nenum := 0
	if cfg.enumStride > 0 && cfg.enumN > 0 {
		common := map[string]bool{"Ethernet": true, "IPv4": true, "IPv6": true, "TCP": true, "UDP": true}
		idx := 0
		for ci, c := range append(append(corpus.TrailingLengthCases(fx, 12), corpus.HeaderEndCases(fx)...), corpus.OptionTailCases()...) {
			if common[c.First.String()] && (ci+int(cfg.seed))%cfg.enumStride != 0 {
				continue
			}
			idx++
			if idx%cfg.enumN != cfg.enumK {
				continue
			}
			nenum++
			runCase(cfg.n+nenum, c.Name, c.Data, c.First, idx/cfg.enumN+int(cfg.seed))
		}
	}
	close(stop)
	return cfg.n + nenum
}

func safePacket(data []byte, first gopacket.LayerType) (p gopacket.Packet) {
	defer func() {
		if recover() != nil {
			p = nil
		}
	}()
	p = gopacket.NewPacket(data, first, gopacket.Default)
	p.Layers()
	return p
}

var _ = reflect.TypeOf
