package main

// The real traces, in the formats the EXISTING trace specs validate:
//   c14Events: the events of cmd/pcapio -mode rt (scn, file, read, meta, lib, cuts, done) for a stream the real NgWriter
//              wrote - validated by PcapFileTrace.tla (verdicts belong to C14);
//   c15Events: the events of cmd/pcapio -mode hostile (case, mode with groups of stream shapes) for any stream -
//              validated by NgReaderTrace.tla (verdicts belong to C15).
// (cmd/pcapio is package main, hence the repetition of its observation code.)

import (
	"bytes"
	"encoding/binary"
	"errors"
	"fmt"
	"io"
	"runtime/metrics"
	"strings"

	"github.com/gopacket/gopacket"
	"github.com/gopacket/gopacket/layers"
	"github.com/gopacket/gopacket/pcapgo"
	"verif/harness/vh"
)

// ---------------------------------------------------------------------------------------------------------------
// C14

type obs14 struct {
	cap, length, dl, ifc, ns, lt int
	s                            int64
	dd, td                       string
	o                            *pcapgo.NgPacketOptions
}

func observe14(data []byte, ci gopacket.CaptureInfo, o *pcapgo.NgPacketOptions) obs14 {
	lt := -1
	if len(ci.AncillaryData) > 0 {
		if l, ok := ci.AncillaryData[0].(layers.LinkType); ok {
			lt = int(l)
		}
	}
	p := obs14{cap: ci.CaptureLength, length: ci.Length, dl: len(data), ifc: ci.InterfaceIndex, s: ci.Timestamp.Unix(),
		ns: ci.Timestamp.Nanosecond(), lt: lt, dd: dig(data), o: o}
	p.td = dig(p.cap, p.length, p.dl, p.ifc, p.s, p.ns, p.lt, p.dd)
	return p
}

func (ob *obs14) event(withOpts bool) vh.M {
	p := vh.M{"cap": ob.cap, "len": ob.length, "dl": ob.dl, "ifc": ob.ifc, "s": ob.s, "ns": ob.ns, "lt": ob.lt, "dd": ob.dd, "td": ob.td,
		"cm": []string{}, "fl": -1, "hs": []int{}, "dc": -1, "pid": -1, "q": -1, "vd": []int{}, "od": ""}
	o := ob.o
	if withOpts && o != nil {
		cm := []string{}
		cm = append(cm, o.Comments...)
		p["cm"] = cm
		if o.Flags != nil {
			p["fl"] = clipU(uint64(o.Flags.ToUint32()))
		}
		hs := []int{}
		for _, h := range o.Hashes {
			hs = append(hs, len(h.Hash))
		}
		p["hs"] = hs
		if o.DropCount != nil {
			p["dc"] = clipU(*o.DropCount)
		}
		if o.PacketID != nil {
			p["pid"] = clipU(*o.PacketID)
		}
		if o.Queue != nil {
			p["q"] = clipU(uint64(*o.Queue))
		}
		vd := []int{}
		for _, v := range o.Verdicts {
			vd = append(vd, len(v.Data))
		}
		p["vd"] = vd
		p["od"] = optDigest(o)
	}
	return p
}

func kind3(err error) string {
	switch {
	case err == nil:
		return "none"
	case errors.Is(err, io.ErrUnexpectedEOF):
		return "ueof"
	case errors.Is(err, io.EOF):
		return "eof"
	}
	return "other"
}

// readAll14: as cmd/pcapio readAll (copying calls retained and observed after the end of the run)
func readAll14(b []byte, mode string, mix bool, maxPk int) (pk []obs14, end string, link int) {
	link = -1
	copying := mode == "copy" || mode == "optc"
	var kept []retained
	_, _, p := vh.Guard(func() {
		rd, err := pcapgo.NewNgReader(bytes.NewReader(b), pcapgo.NgReaderOptions{WantMixedLinkType: mix})
		if err != nil {
			end = kind3(err)
			return
		}
		link = int(rd.LinkType())
		for {
			var data []byte
			var ci gopacket.CaptureInfo
			var o pcapgo.NgPacketOptions
			switch mode {
			case "copy":
				data, ci, err = rd.ReadPacketData()
			case "zero":
				data, ci, err = rd.ZeroCopyReadPacketData()
			case "optc":
				data, ci, o, err = rd.ReadPacketDataWithOptions()
			case "optz":
				data, ci, o, err = rd.ZeroCopyReadPacketDataWithOptions()
			}
			progress.Add(1)
			if err != nil {
				end = kind3(err)
				return
			}
			if len(pk)+len(kept) > maxPk {
				end = "none"
				return
			}
			var op *pcapgo.NgPacketOptions
			if mode == "optc" || mode == "optz" {
				oc := o
				op = &oc
			}
			if copying {
				kept = append(kept, retained{data, ci, op})
			} else {
				pk = append(pk, observe14(data, ci, op))
			}
		}
	})
	for i := range kept {
		pk = append(pk, observe14(kept[i].data, kept[i].ci, kept[i].o))
	}
	if p {
		end = "panic"
	}
	return
}

func walk14(f []byte) [][]interface{} {
	out := [][]interface{}{}
	for off := 0; off+12 <= len(f); {
		typ := binary.LittleEndian.Uint32(f[off:])
		n := int(binary.LittleEndian.Uint32(f[off+4:]))
		k := fmt.Sprintf("type%d", typ)
		switch typ {
		case 0x0A0D0D0A:
			k = "head"
		case 1:
			k = "idb"
		case 6:
			k = "pkt"
		case 3:
			k = "spb"
		case 4:
			k = "nrb"
		case 5:
			k = "isb"
		case 10:
			k = "dsb"
		}
		tl := -1
		if n >= 12 && off+n <= len(f) {
			tl = int(binary.LittleEndian.Uint32(f[off+n-4:]))
		}
		out = append(out, []interface{}{k, off, n, tl})
		if n < 12 {
			break
		}
		off += n
	}
	return out
}

func sameObs(ak int, aend string, atds []string, bk int, bend string, btds []string) bool {
	if ak != bk || aend != bend || len(atds) != len(btds) {
		return false
	}
	for i := range atds {
		if atds[i] != btds[i] {
			return false
		}
	}
	return true
}

// c14Events: everything cmd/pcapio records about one written file, except libpcap (reported as skipped)
func c14Events(sci int, scen interface{}, mixed bool, w written) []vh.M {
	var evs []vh.M
	f := w.file
	evs = append(evs, vh.M{"op": "scn", "sc": sci, "scen": scen})
	evs = append(evs, vh.M{"op": "file", "sc": sci, "size": len(f), "walk": walk14(f), "wofs": w.wofs, "wdd": w.wdd, "wod": w.wod})
	np := len(w.wdd)
	for _, mix := range []bool{false, true} {
		for _, m := range []string{"copy", "zero", "optc", "optz"} {
			pk, end, link := readAll14(f, m, mix, np+4)
			pe := []vh.M{}
			for i := range pk {
				pe = append(pe, pk[i].event(m == "optc" || m == "optz"))
			}
			evs = append(evs, vh.M{"op": "read", "sc": sci, "mode": m, "mix": mix, "pk": pe, "end": end, "link": link})
		}
	}
	meta := vh.M{"op": "meta", "sc": sci, "shb": []string{}, "ifs": []vh.M{}}
	vh.Guard(func() {
		rd, err := pcapgo.NewNgReader(bytes.NewReader(f), pcapgo.NgReaderOptions{WantMixedLinkType: true})
		if err != nil {
			return
		}
		si := rd.SectionInfo()
		meta["shb"] = []string{si.Application, si.Comment, si.Hardware, si.OS}
		for {
			if _, _, err := rd.ReadPacketData(); err != nil {
				break
			}
		}
		ifs := []vh.M{}
		for i := 0; i < rd.NInterfaces(); i++ {
			fi, _ := rd.Interface(i)
			ifs = append(ifs, vh.M{"link": int(fi.LinkType), "snap": int(fi.SnapLength), "name": fi.Name, "cmt": fi.Comment, "descr": fi.Description,
				"filter": fi.Filter, "os": fi.OS, "tsoff": clipU(fi.TimestampOffset), "res": int(fi.TimestampResolution)})
		}
		meta["ifs"] = ifs
	})
	evs = append(evs, meta, vh.M{"op": "lib", "sc": sci, "status": "skip", "pk": []vh.M{}, "link": -1})
	for _, m := range []string{"copy", "zero"} {
		lo := 0
		var k0 int
		var end0 string
		var tds0 []string
		flush := func(hi int) {
			evs = append(evs, vh.M{"op": "cuts", "sc": sci, "mode": m, "lo": lo, "hi": hi, "k": k0, "end": end0, "tds": tds0})
		}
		for cut := 0; cut <= len(f); cut++ {
			if len(f) > 40000 && cut%1009 != 0 && !nearBoundary(cut, w.wofs, len(f)) {
				continue
			}
			pk, end, _ := readAll14(f[:cut:cut], m, mixed, np+4)
			tds := make([]string, len(pk))
			for i := range pk {
				tds[i] = pk[i].td
			}
			if cut == 0 {
				k0, end0, tds0 = len(pk), end, tds
				continue
			}
			if !sameObs(k0, end0, tds0, len(pk), end, tds) {
				flush(cut)
				lo, k0, end0, tds0 = cut, len(pk), end, tds
			}
		}
		flush(len(f) + 1)
	}
	evs = append(evs, vh.M{"op": "done", "sc": sci})
	return evs
}

func nearBoundary(cut int, wofs []int, size int) bool {
	if cut < 64 || size-cut < 64 {
		return true
	}
	for _, o := range wofs {
		if d := cut - o; d > -64 && d < 64 {
			return true
		}
	}
	return false
}

// ---------------------------------------------------------------------------------------------------------------
// C15

var errInjected = errors.New("injected I/O error")

type shaped struct {
	b     []byte
	pos   int
	sizes []int
	k     int
	inj   int
	fired bool
}

func (s *shaped) Read(p []byte) (int, error) {
	if s.inj >= 0 && s.pos >= s.inj {
		s.fired = true
		return 0, errInjected
	}
	if s.pos >= len(s.b) {
		return 0, io.EOF
	}
	n := len(p)
	if s.sizes != nil {
		if m := s.sizes[s.k%len(s.sizes)]; m < n {
			n = m
		}
		s.k++
	}
	if rem := len(s.b) - s.pos; rem < n {
		n = rem
	}
	if s.inj >= 0 && s.pos+n > s.inj {
		n = s.inj - s.pos
	}
	copy(p, s.b[s.pos:s.pos+n])
	s.pos += n
	return n, nil
}

var allocSample = []metrics.Sample{{Name: "/gc/heap/allocs:bytes"}}

type obs15 struct {
	calls  [][]interface{}
	key    string
	end    string
	fired  bool
	makb   int
	site   string
	snapkb int
}

func half(v uint64) (int, int) { return int(v >> 16), int(v & 0xffff) }

// runStream15: one stream read to its end (as cmd/pcapio runStream); allocation per call from the cumulative heap
// allocation counter (all goroutines of the process: an upper bound)
func runStream15(src io.Reader, cfg Cfg, maxCalls int) (o obs15) {
	opt := pcapgo.NgReaderOptions{WantMixedLinkType: cfg.Mixed, ErrorOnMismatchingLinkType: cfg.Errmis, SkipUnknownVersion: cfg.Skipver,
		SectionEndCallback: func([]pcapgo.NgInterface, pcapgo.NgSectionInfo) {}, StatisticsCallback: func(int, pcapgo.NgInterfaceStatistics) {}}
	var rd *pcapgo.NgReader
	var err error
	var sb strings.Builder
	step := func(f func()) bool {
		var samp = []metrics.Sample{{Name: "/gc/heap/allocs:bytes"}}
		metrics.Read(samp)
		a := samp[0].Value.Uint64()
		msg, site, p := vh.Guard(f)
		metrics.Read(samp)
		if kb := int((samp[0].Value.Uint64() - a + 1023) / 1024); kb > o.makb {
			o.makb = kb
		}
		if p {
			o.end = "panic"
			if len(msg) > 80 {
				msg = msg[:80]
			}
			o.site = site + " :: " + msg
		}
		return p
	}
	snap := func() {
		if rd == nil {
			return
		}
		m := uint32(0)
		for i := 0; i < rd.NInterfaces(); i++ {
			if f, err := rd.Interface(i); err == nil && f.SnapLength > m {
				m = f.SnapLength
			}
		}
		if kb := int((uint64(m) + 1023) / 1024); kb > o.snapkb {
			o.snapkb = kb
		}
	}
	class := func(err error) string {
		if errors.Is(err, errInjected) || strings.Contains(err.Error(), errInjected.Error()) {
			return "inj"
		}
		return kind3(err)
	}
	defer func() { o.key = sb.String() + "|" + o.end + "|" + o.site }()
	if step(func() { rd, err = pcapgo.NewNgReader(src, opt) }) {
		return
	}
	if err != nil {
		o.end = class(err)
		return
	}
	for n := 0; n < maxCalls; n++ {
		var data []byte
		var ci gopacket.CaptureInfo
		snap()
		p := step(func() {
			if cfg.Zero {
				data, ci, err = rd.ZeroCopyReadPacketData()
			} else {
				data, ci, err = rd.ReadPacketData()
			}
		})
		progress.Add(1)
		if p {
			return
		}
		if err != nil {
			o.end = class(err)
			snap()
			return
		}
		ch, cl := half(uint64(ci.CaptureLength))
		lh, ll := half(uint64(ci.Length))
		dh, dl := half(uint64(len(data)))
		dg := dig(data, ci.Timestamp.Unix(), ci.Timestamp.Nanosecond(), ci.InterfaceIndex)
		o.calls = append(o.calls, []interface{}{ch, cl, lh, ll, dh, dl, dg})
		fmt.Fprintf(&sb, "%d,%d,%d,%s;", ci.CaptureLength, ci.Length, len(data), dg)
	}
	o.end = "none"
	return
}

// c15Events: one case (the byte stream f) read with one reader configuration through the stream shapes whole, one byte
// per Read, two chunkings and injected I/O errors; shapes with the same observation form one group
func c15Events(cs int, f []byte, cfg Cfg, loc string, r *vh.Rand, maxCalls int) []vh.M {
	type shapeT struct {
		kind  string
		sizes []int
		inj   int
	}
	shapes := []shapeT{{"whole", nil, -1}, {"one", []int{1}, -1}, {"chk", []int{3, 5}, -1}, {"chk", []int{13, 2, 8}, -1}}
	seen := map[int]bool{}
	for _, q := range []int{0, 1, len(f) / 2, len(f) - 1, len(f), r.Intn(len(f) + 1), r.Intn(len(f) + 1)} {
		if q >= 0 && q <= len(f) && !seen[q] {
			seen[q] = true
			sh := shapeT{"inj", nil, q}
			if q%2 == 1 {
				sh.sizes = []int{3, 1}
			}
			shapes = append(shapes, sh)
		}
	}
	type grp struct {
		o      obs15
		shapes map[string]int
		order  []string
	}
	var groups []*grp
	idx := map[string]*grp{}
	snapkb := 0
	for _, sh := range shapes {
		src := &shaped{b: f, sizes: sh.sizes, inj: sh.inj}
		var rdr io.Reader = src
		if sh.kind == "whole" {
			rdr = bytes.NewReader(f)
		}
		o := runStream15(rdr, cfg, maxCalls)
		o.fired = src.fired
		if o.snapkb > snapkb {
			snapkb = o.snapkb
		}
		k := fmt.Sprintf("%s|%v", o.key, o.fired)
		g := idx[k]
		if g == nil {
			g = &grp{o: o, shapes: map[string]int{}}
			idx[k] = g
			groups = append(groups, g)
		}
		if o.makb > g.o.makb {
			g.o.makb = o.makb
		}
		if g.shapes[sh.kind] == 0 {
			g.order = append(g.order, sh.kind)
		}
		g.shapes[sh.kind]++
	}
	var gl []vh.M
	for _, g := range groups {
		var shl []vh.M
		for _, k := range g.order {
			shl = append(shl, vh.M{"k": k, "n": g.shapes[k]})
		}
		calls := g.o.calls
		if calls == nil {
			calls = [][]interface{}{}
		}
		gl = append(gl, vh.M{"shapes": shl, "calls": calls, "end": g.o.end, "fired": g.o.fired, "makb": g.o.makb, "runkb": 0, "site": g.o.site})
	}
	return []vh.M{
		{"op": "case", "cs": cs, "fmt": "ng", "base": 0, "loc": loc, "cls": cfg.label(), "src": "impl", "present": len(f), "size": len(f), "hex": ""},
		{"op": "mode", "cs": cs, "rd": cfg.label(), "snapkb": snapkb, "groups": gl},
	}
}
