package main

// Materialisation of an abstract block stream (specs/NgReaderImplEnc.tla) as pcapng bytes: a literal port of the
// layout operators Image / EncBlock / Body / EncOpts / OptVal (raw construction, every corruption class), and - for
// streams the real NgWriter can produce - the same stream written by the real writer (as cmd/pcapio does for its
// scenarios).  Any difference between the two, or between either and the size / checksum the model exported, is
// reported as layout drift.

import (
	"bytes"
	"fmt"
	"time"

	"github.com/gopacket/gopacket"
	"github.com/gopacket/gopacket/layers"
	"github.com/gopacket/gopacket/pcapgo"
)

type Opt struct {
	C int `json:"c"`
	N int `json:"n"`
	V int `json:"v"`
}

type Rec struct {
	Rt int `json:"rt"`
	Rl int `json:"rl"`
	Al int `json:"al"`
	Nl int `json:"nl"`
}

type Block struct {
	K    string `json:"k"`
	Be   bool   `json:"be"`
	Bom  int    `json:"bom"`
	Vmaj int    `json:"vmaj"`
	Vmin int    `json:"vmin"`
	Opts []Opt  `json:"opts"`
	Link int    `json:"link"`
	Snap int    `json:"snap"`
	Ifc  int    `json:"ifc"`
	Ts   []int  `json:"ts"`
	Cap  int    `json:"cap"`
	Len  int    `json:"len"`
	Dn   int    `json:"dn"`
	St   int    `json:"st"`
	Sl   int    `json:"sl"`
	Recs []Rec  `json:"recs"`
	Typ  int    `json:"typ"`
	Dl   int    `json:"dl"`
	Al   int    `json:"al"`
	Dt   int    `json:"dt"`
	Eoo  int    `json:"eoo"`
}

func pad4(n int) int { return (n + 3) / 4 * 4 }

// num: w bytes of n in the given byte order; n < 0 stands for 2^(8w) + n
func num(n, w int, be bool) []byte {
	u := uint64(int64(n))
	b := make([]byte, w)
	for i := 0; i < w; i++ {
		v := byte(u >> (8 * uint(i)))
		if be {
			b[w-1-i] = v
		} else {
			b[i] = v
		}
	}
	return b
}

func alpha(n int) []byte {
	b := make([]byte, n)
	for j := range b {
		b[j] = byte(97 + j%26)
	}
	return b
}

func cutTo(s []byte, n int) []byte {
	if len(s) >= n {
		return s[:n]
	}
	return append(s, make([]byte, n-len(s))...)
}

func padTo4(s []byte) []byte { return append(s, make([]byte, pad4(len(s))-len(s))...) }

func seqBytes(first, n int) []byte { // bytes (first + j) % 256
	if n < 0 {
		n = 0
	}
	b := make([]byte, n)
	for j := range b {
		b[j] = byte(first + j)
	}
	return b
}

// OptVal of NgReaderImplEnc.tla
func optVal(k string, o Opt, be bool) []byte {
	var full []byte
	switch {
	case k == "idb" && o.C == 9:
		full = []byte{byte(o.V)}
	case k == "idb" && o.C == 14:
		full = num(o.V, 8, be)
	case k == "idb" && o.C == 11:
		full = append([]byte{0}, alpha(max0(o.N-1))...)
	case k == "epb" && o.C == 2:
		full = num(o.V, 4, false)
	case k == "epb" && (o.C == 4 || o.C == 5):
		full = num(o.V, 8, false)
	case k == "epb" && o.C == 6:
		full = num(o.V, 4, false)
	case k == "epb" && o.C == 3:
		full = append([]byte{byte(o.V + 2)}, seqBytes(77+5*o.V, o.N-1)...)
	case k == "epb" && o.C == 7:
		full = append([]byte{byte(o.V + 1)}, seqBytes(90+5*o.V, o.N-1)...)
	case k == "isb" && (o.C == 2 || o.C == 3):
		full = append(num(o.V, 4, be), num(5, 4, be)...)
	case k == "isb" && (o.C == 4 || o.C == 5):
		full = num(o.V, 8, be)
	default:
		full = alpha(o.N)
	}
	return cutTo(full, o.N)
}

func max0(n int) int {
	if n < 0 {
		return 0
	}
	return n
}

func encOpts(k string, os []Opt, eoo int, be bool) []byte {
	var b []byte
	for _, o := range os {
		b = append(b, num(o.C, 2, be)...)
		b = append(b, num(o.N, 2, be)...)
		b = append(b, padTo4(optVal(k, o, be))...)
	}
	switch eoo {
	case 0:
		if len(os) > 0 {
			b = append(b, 0, 0, 0, 0)
		}
	case 1:
	case 2:
		b = append(b, 0, 0, 0, 0)
	default:
		b = append(b, num(0, 2, be)...)
		b = append(b, num(4, 2, be)...)
		b = append(b, 0, 0, 0, 0)
	}
	return b
}

func dataOf(ord, n int) []byte {
	b := make([]byte, n)
	for j := range b {
		b[j] = byte(17*ord + 31*j + 3)
	}
	return b
}

func tsHiLo(b *Block, be bool) []byte {
	t := make([]byte, 8)
	for i := range t {
		t[i] = byte(b.Ts[i])
	}
	if be {
		return t
	}
	return []byte{t[3], t[2], t[1], t[0], t[7], t[6], t[5], t[4]}
}

func blockType(b *Block) int {
	switch b.K {
	case "shb":
		return 0x0A0D0D0A
	case "idb":
		return 1
	case "pb":
		return 2
	case "spb":
		return 3
	case "nrb":
		return 4
	case "isb":
		return 5
	case "epb":
		return 6
	case "dsb":
		return 10
	}
	return b.Typ
}

func cat(parts ...[]byte) []byte {
	var b []byte
	for _, p := range parts {
		b = append(b, p...)
	}
	return b
}

func body(b *Block, be bool, ord int) []byte {
	switch b.K {
	case "shb":
		var magic []byte
		switch b.Bom {
		case 0:
			if b.Be {
				magic = []byte{26, 43, 60, 77}
			} else {
				magic = []byte{77, 60, 43, 26}
			}
		case 1:
			magic = []byte{0, 0, 0, 0}
		default:
			magic = []byte{26, 43, 60, 78}
		}
		return cat(magic, num(b.Vmaj, 2, b.Be), num(b.Vmin, 2, b.Be), bytes.Repeat([]byte{255}, 8), encOpts("shb", b.Opts, b.Eoo, b.Be))
	case "idb":
		return cat(num(b.Link, 2, be), []byte{0, 0}, num(b.Snap, 4, be), encOpts("idb", b.Opts, b.Eoo, be))
	case "epb":
		return cat(num(b.Ifc, 4, be), tsHiLo(b, be), num(b.Cap, 4, be), num(b.Len, 4, be), padTo4(dataOf(ord, b.Dn)), encOpts("epb", b.Opts, b.Eoo, be))
	case "pb":
		return cat(num(b.Ifc, 2, be), []byte{0, 0}, tsHiLo(b, be), num(b.Cap, 4, be), num(b.Len, 4, be), padTo4(dataOf(ord, b.Dn)), encOpts("epb", b.Opts, b.Eoo, be))
	case "spb":
		return cat(num(b.Len, 4, be), padTo4(dataOf(ord, b.Dn)))
	case "isb":
		return cat(num(b.Ifc, 4, be), tsHiLo(b, be), encOpts("isb", b.Opts, b.Eoo, be))
	case "dsb":
		return cat(num(b.St, 4, be), num(b.Sl, 4, be), padTo4(dataOf(ord, b.Dn)))
	case "nrb":
		var out []byte
		for ri, r := range b.Recs {
			out = append(out, num(r.Rt, 2, be)...)
			out = append(out, num(r.Rl, 2, be)...)
			if r.Rt == 0 {
				continue
			}
			v := seqBytes(92+5*ri, r.Al)
			if r.Nl > 0 {
				v = append(v, alpha(r.Nl-1)...)
				v = append(v, 0)
			}
			out = append(out, padTo4(v)...)
		}
		return out
	}
	return padTo4(dataOf(ord, b.Dn))
}

type extent struct {
	kind     string
	off, len int
}

// image: the raw construction; returns the bytes and the true extent of every block
func image(s []Block) ([]byte, []extent) {
	var out []byte
	var ext []extent
	order := false
	for i := range s {
		b := &s[i]
		e := order
		if b.K == "shb" {
			e = b.Be
		}
		bd := body(b, e, i+1)
		tl := 12 + len(bd)
		decl := tl + b.Dl
		if b.Al >= 0 {
			decl = b.Al
		}
		ext = append(ext, extent{b.K, len(out), tl})
		out = append(out, num(blockType(b), 4, e)...)
		out = append(out, num(decl, 4, e)...)
		out = append(out, bd...)
		out = append(out, num(tl+b.Dt, 4, e)...)
		if b.K == "shb" && b.Bom == 0 {
			order = b.Be
		}
	}
	return out, ext
}

// hashInts is HashBytes of the model: a polynomial checksum, used for equality only
func hashInts(acc int, xs ...int) int {
	for _, x := range xs {
		acc = (acc*31 + x + 1) % 65521
	}
	return acc
}

func hashBytes(b []byte) int {
	acc := 7
	for _, x := range b {
		acc = (acc*31 + int(x) + 1) % 65521
	}
	return acc
}

// ---------------------------------------------------------------------------------------------------------------
// the real writer

func optOf(os []Opt, c int) (Opt, bool) {
	for _, o := range os {
		if o.C == c {
			return o, true
		}
	}
	return Opt{}, false
}

func strOf(os []Opt, c int) string {
	if o, ok := optOf(os, c); ok {
		return string(alpha(o.N))
	}
	return ""
}

func ngIface(b *Block) pcapgo.NgInterface {
	f := pcapgo.NgInterface{Name: strOf(b.Opts, 2), Comment: strOf(b.Opts, 1), Description: strOf(b.Opts, 3), OS: strOf(b.Opts, 12),
		LinkType: layers.LinkType(b.Link), SnapLength: uint32(b.Snap), TimestampResolution: 9}
	if o, ok := optOf(b.Opts, 11); ok && o.N > 1 {
		f.Filter = string(alpha(o.N - 1))
	}
	if o, ok := optOf(b.Opts, 14); ok {
		f.TimestampOffset = uint64(o.V)
	}
	return f
}

func tsOf(b *Block) time.Time {
	var v uint64
	for _, x := range b.Ts {
		v = v<<8 | uint64(x)
	}
	return time.Unix(0, int64(v))
}

func ngOpts(b *Block) pcapgo.NgPacketOptions {
	var o pcapgo.NgPacketOptions
	for _, op := range b.Opts {
		val := optVal("epb", op, false)
		switch op.C {
		case 1:
			o.Comments = append(o.Comments, string(val))
		case 2:
			f := pcapgo.NgEpbFlags{}
			f.FromUint32(uint32(op.V))
			o.Flags = &f
		case 3:
			o.Hashes = append(o.Hashes, pcapgo.NgEpbHash{Algorithm: pcapgo.NgEpbHashAlgorithm(val[0]), Hash: val[1:]})
		case 4:
			v := uint64(op.V)
			o.DropCount = &v
		case 5:
			v := uint64(op.V)
			o.PacketID = &v
		case 6:
			v := uint32(op.V)
			o.Queue = &v
		case 7:
			o.Verdicts = append(o.Verdicts, pcapgo.NgEpbVerdict{Type: pcapgo.NgEpbVerdictType(val[0]), Data: val[1:]})
		}
	}
	return o
}

type written struct {
	file []byte
	wofs []int    // file length after each flushed writer call
	wdd  []string // digest of the data of each packet handed to the writer
	wod  []string // digest of its binary option contents
	err  error
}

// writeReal writes a well-formed stream (JudgeWF of the model) with the real NgWriter; name resolution blocks, for which
// pcapgo has no writer, are laid out raw between two flushes (as cmd/pcapio does).
func writeReal(s []Block) (res written) {
	var buf bytes.Buffer
	if len(s) < 2 || s[0].K != "shb" || s[1].K != "idb" {
		res.err = fmt.Errorf("not a writer stream")
		return
	}
	w, err := pcapgo.NewNgWriterInterface(&buf, ngIface(&s[1]), pcapgo.NgWriterOptions{SectionInfo: pcapgo.NgSectionInfo{
		Application: strOf(s[0].Opts, 4), Comment: strOf(s[0].Opts, 1), Hardware: strOf(s[0].Opts, 2), OS: strOf(s[0].Opts, 3)}})
	if err != nil {
		res.err = err
		return
	}
	w.Flush()
	res.wofs = append(res.wofs, buf.Len())
	for i := 2; i < len(s); i++ {
		b := &s[i]
		switch b.K {
		case "idb":
			_, res.err = w.AddInterface(ngIface(b))
		case "epb":
			d := dataOf(i+1, b.Dn)
			o := ngOpts(b)
			res.wdd = append(res.wdd, dig(d))
			res.wod = append(res.wod, optDigest(&o))
			res.err = w.WritePacketWithOptions(gopacket.CaptureInfo{Timestamp: tsOf(b), CaptureLength: b.Cap, Length: b.Len, InterfaceIndex: b.Ifc}, d, o)
		case "isb":
			st := pcapgo.NgInterfaceStatistics{LastUpdate: tsOf(b), PacketsDropped: pcapgo.NgNoValue64, PacketsReceived: pcapgo.NgNoValue64}
			for _, o := range b.Opts {
				switch o.C {
				case 2:
					st.StartTime = time.Unix(0, int64(o.V)<<32|5)
				case 3:
					st.EndTime = time.Unix(0, int64(o.V)<<32|5)
				case 4:
					st.PacketsReceived = uint64(o.V)
				case 5:
					st.PacketsDropped = uint64(o.V)
				}
			}
			res.err = w.WriteInterfaceStats(b.Ifc, st)
		case "dsb":
			res.err = w.WriteDecryptionSecretsBlock(uint32(b.St), dataOf(i+1, b.Dn))
		case "nrb":
			w.Flush()
			bd := body(b, false, i+1)
			buf.Write(num(4, 4, false))
			buf.Write(num(12+len(bd), 4, false))
			buf.Write(bd)
			buf.Write(num(12+len(bd), 4, false))
		default:
			res.err = fmt.Errorf("no writer for block kind %q", b.K)
		}
		if res.err != nil {
			return
		}
		w.Flush()
		res.wofs = append(res.wofs, buf.Len())
	}
	res.file = append([]byte(nil), buf.Bytes()...)
	if res.wdd == nil {
		res.wdd, res.wod = []string{}, []string{}
	}
	return
}
