// ngread_impl: model -> implementation binding for specs/NgReaderImpl.tla (the transcription of pcapgo/ngread.go,
// ngread_dsb.go, ngread_nrb.go).  Behaviours exported by TLC from NgReaderImplMC carry an abstract pcapng block stream,
// a reader configuration (NgReaderOptions + copying / zero-copy call), a truncation offset and the events the model
// predicts per reader call.  Every stream is materialised as real pcapng bytes (raw construction; through the real
// NgWriter as well where the stream is one the writer produces), the real pcapgo.NgReader is run with the same options
// through ReadPacketData / ZeroCopyReadPacketData and the ...WithOptions variants, predicted and observed events are
// compared (drift: reported, never a verdict), and the real behaviour is recorded in the formats of cmd/pcapio for
// validation by the EXISTING trace specs: PcapFileTrace (writer streams; verdicts belong to C14) and NgReaderTrace
// (every stream, through several stream shapes; verdicts belong to C15).  X14IMPL.
package main

import (
	"bufio"
	"bytes"
	"encoding/json"
	"flag"
	"fmt"
	"os"
	"runtime"
	"runtime/debug"
	"strings"
	"sync"
	"sync/atomic"
	"time"

	"verif/harness/implcmp"
	"verif/harness/vh"
)

type behaviour struct {
	Cfg    Cfg             `json:"cfg"`
	Stream []Block         `json:"stream"`
	Cut    int             `json:"cut"`
	Size   int             `json:"size"`
	Sum    int             `json:"sum"`
	Ext    [][]interface{} `json:"ext"`
	Wf     bool            `json:"wf"`
	Scen   json.RawMessage `json:"scen"`
	Pred   [][]vh.M        `json:"pred"`
}

var progress atomic.Int64

func watchdog(tr *vh.Trace) {
	last, stuck := int64(-1), 0
	for {
		time.Sleep(1 * time.Second)
		cur := progress.Load()
		if cur == last {
			stuck++
		} else {
			last, stuck = cur, 0
		}
		if stuck >= 60 {
			tr.Emit(vh.M{"op": "hang", "cs": int(cur), "rd": "-"})
			tr.Close()
			fmt.Printf("{\"scenarios\":%d,\"hang\":true}\n", cur)
			os.Exit(3)
		}
	}
}

type result struct {
	sc       int
	drift    *implcmp.Drift
	ncmp     int
	npkt     int
	ends     map[string]int
	file     []byte // the stream as read (cut applied)
	cfg      Cfg
	wfKey    string // non-empty: a writer stream; key of the stream
	scen     json.RawMessage
	mixed    bool
	w        written
	loc      string
	ncalls   int
	layoutOK bool
}

func kinds(s []Block) string {
	var k []string
	for _, b := range s {
		k = append(k, b.K)
	}
	return strings.Join(k, ",")
}

func runBehaviour(sc int, line []byte) (r result) {
	var b behaviour
	if err := json.Unmarshal(line, &b); err != nil {
		vh.Fatal("bad behaviour", err)
	}
	r.sc, r.cfg, r.ends = sc, b.Cfg, map[string]int{}
	r.loc = kinds(b.Stream)
	streamText, _ := json.Marshal(b.Stream)
	mkDrift := func(idx int, kind string, ps, os_ []string) {
		if r.drift == nil {
			txt := string(streamText)
			if len(txt) > 1500 {
				txt = txt[:1500] + "..."
			}
			r.drift = &implcmp.Drift{Sc: sc, Cfg: b.Cfg, Ops: fmt.Sprintf("cut=%d stream=%s", b.Cut, txt), OpIndex: idx, Kind: kind, Predicted: ps, Observed: os_}
		}
	}
	// 1. materialise
	img, ext := image(b.Stream)
	r.layoutOK = true
	if len(img) != b.Size || (b.Sum >= 0 && hashBytes(img) != b.Sum) || len(ext) != len(b.Ext) {
		r.layoutOK = false
		mkDrift(-1, "layout", []string{fmt.Sprintf("size=%d sum=%d", b.Size, b.Sum)}, []string{fmt.Sprintf("size=%d sum=%d", len(img), hashBytes(img))})
	} else {
		for i, e := range ext {
			if implcmp.Num(b.Ext[i][1]) != e.off || implcmp.Num(b.Ext[i][2]) != e.len {
				r.layoutOK = false
				mkDrift(-1, "layout", []string{fmt.Sprint(b.Ext)}, []string{fmt.Sprint(ext)})
				break
			}
		}
	}
	if b.Wf {
		w := writeReal(b.Stream)
		switch {
		case w.err != nil:
			mkDrift(-1, "writer-rejects", []string{"writer stream"}, []string{w.err.Error()})
		case !bytes.Equal(w.file, img):
			mkDrift(-1, "writer-vs-raw", []string{fmt.Sprintf("raw size=%d sum=%d", len(img), hashBytes(img))}, []string{fmt.Sprintf("writer size=%d sum=%d", len(w.file), hashBytes(w.file))})
			fallthrough
		default:
			r.wfKey, r.scen, r.w = string(streamText), b.Scen, w
			var sc0 struct {
				Mixed bool `json:"mixed"`
			}
			json.Unmarshal(b.Scen, &sc0)
			r.mixed = sc0.Mixed
		}
	}
	cut := b.Cut
	if cut > len(img) {
		cut = len(img)
	}
	f := img[:cut:cut]
	r.file = f
	maxCalls := len(b.Stream) + 4
	r.ncalls = maxCalls
	// 2. the real reader, with options: compared with the prediction call by call
	obs := run(bytes.NewReader(f), b.Cfg, true, maxCalls)
	oc := canonCalls(obs, true)
	pc := canonCalls(b.Pred, true)
	for _, c := range obs {
		for _, e := range c {
			switch e["op"] {
			case "pkt":
				r.npkt++
			case "end":
				r.ends[fmt.Sprint(e["kind"])]++
			}
		}
	}
	if b.Pred != nil {
		for i := 0; i < len(oc) || i < len(pc); i++ {
			r.ncmp++
			var p, o string
			if i < len(pc) {
				p = pc[i]
			}
			if i < len(oc) {
				o = oc[i]
			}
			if p != o {
				kind := "length"
				if i < len(oc) && i < len(pc) {
					kind = strings.SplitN(o, " ", 2)[0]
					if kind == "end" {
						kind = strings.SplitN(o, " | ", 2)[0]
					}
				}
				mkDrift(i, kind, []string{p}, []string{o})
				break
			}
		}
	}
	// 3. the calls without options must return the same packets
	plain := canonCalls(run(bytes.NewReader(f), b.Cfg, false, maxCalls), false)
	wo := canonCalls(obs, false)
	if strings.Join(plain, "\n") != strings.Join(wo, "\n") {
		i := 0
		for i < len(plain) && i < len(wo) && plain[i] == wo[i] {
			i++
		}
		var p, o string
		if i < len(wo) {
			p = wo[i]
		}
		if i < len(plain) {
			o = plain[i]
		}
		mkDrift(i, "plain-vs-options", []string{p}, []string{o})
	}
	return r
}

func main() {
	in := flag.String("behaviours", "", "ndjson of behaviours exported by TLC from NgReaderImplMC")
	out14 := flag.String("trace14", "trace14.ndjson", "trace in the format of cmd/pcapio -mode rt (writer streams)")
	out15 := flag.String("trace15", "trace15.ndjson", "trace in the format of cmd/pcapio -mode hostile (every stream)")
	driftOut := flag.String("drift", "drift.ndjson", "drift records output")
	maxDrift := flag.Int("maxdrift", 40, "drift examples kept")
	par := flag.Int("par", 0, "worker goroutines (0 = GOMAXPROCS, at most 8)")
	seed := flag.Uint64("seed", 1, "seed (positions of injected errors)")
	max14 := flag.Int("max14", 1<<30, "at most this many distinct writer streams get the full C14 treatment (every cut offset)")
	flag.Parse()
	if os.Getenv("GOGC") == "" {
		debug.SetGCPercent(400)
	}
	t15 := vh.NewTrace(*out15)
	progress.Store(1)
	go watchdog(t15)
	f, err := os.Open(*in)
	if err != nil {
		vh.Fatal(err)
	}
	df, err := os.Create(*driftOut)
	if err != nil {
		vh.Fatal(err)
	}
	dw := bufio.NewWriter(df)
	rd := bufio.NewScanner(f)
	rd.Buffer(make([]byte, 1<<20), 1<<26)
	var lines [][]byte
	for rd.Scan() {
		if len(rd.Bytes()) > 0 {
			lines = append(lines, append([]byte(nil), rd.Bytes()...))
		}
	}
	results := make([]result, len(lines))
	workers := runtime.GOMAXPROCS(0)
	if *par > 0 {
		workers = *par
	}
	if workers > 8 {
		workers = 8
	}
	var wg sync.WaitGroup
	var next atomic.Int64
	for w := 0; w < workers; w++ {
		wg.Add(1)
		go func() {
			defer wg.Done()
			for {
				i := int(next.Add(1)) - 1
				if i >= len(lines) {
					return
				}
				results[i] = runBehaviour(i+1, lines[i])
				progress.Add(1)
			}
		}()
	}
	wg.Wait()
	// drift, statistics
	ndrift, ncmp, npkt := 0, 0, 0
	driftKinds := map[string]int{}
	ends := map[string]int{}
	for i := range results {
		r := &results[i]
		ncmp += r.ncmp
		npkt += r.npkt
		for k, n := range r.ends {
			ends[k] += n
		}
		if r.drift != nil {
			ndrift++
			driftKinds[r.drift.Kind]++
			if ndrift <= *maxDrift {
				jb, _ := json.Marshal(r.drift)
				dw.Write(jb)
				dw.WriteByte('\n')
			}
		}
	}
	dw.Flush()
	df.Close()
	// C14 trace: every distinct writer stream once (in parallel; the events of a stream stay contiguous)
	t14 := vh.NewTrace(*out14)
	seen := map[string]bool{}
	var wf []*result
	for i := range results {
		r := &results[i]
		if r.wfKey != "" && r.w.err == nil && !seen[r.wfKey] && len(wf) < *max14 {
			seen[r.wfKey] = true
			wf = append(wf, r)
		}
	}
	ev14 := make([][]vh.M, len(wf))
	next.Store(0)
	for w := 0; w < workers; w++ {
		wg.Add(1)
		go func() {
			defer wg.Done()
			for {
				i := int(next.Add(1)) - 1
				if i >= len(wf) {
					return
				}
				var scen interface{}
				json.Unmarshal(wf[i].scen, &scen)
				ev14[i] = c14Events(i+1, scen, wf[i].mixed, wf[i].w)
				progress.Add(1)
			}
		}()
	}
	wg.Wait()
	for _, evs := range ev14 {
		t14.EmitBlock(evs)
	}
	t14.Close()
	// C15 trace: sequentially (allocation is measured from a process-wide counter)
	runtime.GC()
	for i := range results {
		r := &results[i]
		t15.EmitBlock(c15Events(r.sc, r.file, r.cfg, r.loc, vh.NewRand(*seed*7919+uint64(r.sc)), r.ncalls))
		progress.Add(1)
	}
	t15.Close()
	kinds, _ := json.Marshal(driftKinds)
	ek, _ := json.Marshal(ends)
	fmt.Printf("{\"scenarios\":%d,\"compared_calls\":%d,\"drift\":%d,\"drift_kinds\":%s,\"packets\":%d,\"ends\":%s,\"writer_streams\":%d,\"events14\":%d,\"events15\":%d}\n",
		len(lines), ncmp, ndrift, kinds, npkt, ek, len(wf), t14.N, t15.N)
}
