package main

// Observation of the real pcapgo.NgReader: one run = NewNgReader + read calls until the first error, recorded in the
// event format of specs/NgReaderImpl.tla (open / cb / pkt / end / meta).  What a copying call returned is RETAINED and
// observed only after the run (the caller owns it); what a zero-copy call returned is observed at once.

import (
	"bytes"
	"encoding/binary"
	"errors"
	"fmt"
	"hash/fnv"
	"io"
	"strings"

	"github.com/gopacket/gopacket"
	"github.com/gopacket/gopacket/layers"
	"github.com/gopacket/gopacket/pcapgo"
	"verif/harness/vh"
)

type Cfg struct {
	Mixed   bool `json:"mixed"`
	Errmis  bool `json:"errmis"`
	Skipver bool `json:"skipver"`
	Zero    bool `json:"zero"`
}

func (c Cfg) label() string {
	b := func(v bool, s string) string {
		if v {
			return s
		}
		return "-"
	}
	m := "copy"
	if c.Zero {
		m = "zero"
	}
	return m + "/" + b(c.Mixed, "mix") + b(c.Errmis, "err") + b(c.Skipver, "skip")
}

const clipMark = 0x7ffffff0

func clipU(v uint64) int {
	if v > 0x7fffffff {
		return clipMark
	}
	return int(v)
}

func clipS(v int64) int {
	if v < 0 || v > 0x7fffffff {
		return clipMark
	}
	return int(v)
}

// errClass names the error of the code as the model names it (comparison only)
func errClass(err error) string {
	switch {
	case err == nil:
		return "none"
	case errors.Is(err, io.ErrUnexpectedEOF):
		return "ueof"
	case errors.Is(err, io.EOF):
		return "eof"
	case errors.Is(err, pcapgo.ErrNgVersionMismatch):
		return "version"
	case errors.Is(err, pcapgo.ErrNgLinkTypeMismatch):
		return "linktype"
	}
	msg := err.Error()
	for _, p := range [][2]string{
		{"Wrong byte order value", "bom"}, {"Unknown magic", "magic"}, {"End of Options must be zero length", "eoo-len"},
		{"option value too short", "short-opt"}, {"Unsupported timestamp resolution", "tsresol"},
		{"A section must have an interface before a packet block", "no-iface"}, {"At least one Interface is needed", "no-iface-spb"},
		{"not present in section", "ifid"}, {"capture length exceeds original packet length", "cap-len"},
		{"exceeds remaining block length", "cap-block-or-dsb"}, {"could not read DecryptionSecret", "dsb-read"}, {"from DecryptionSecret payload", "dsb-read"},
		{"could not read name", "nrb-name"}, {"could not discard unknown name record", "nrb-discard"},
		{"could not read NameRecord", "nrb-read"}, {"could not read IP", "nrb-read"}, {"could not read EUI", "nrb-read"},
		{"gzip", "gzip"}, {"flate", "gzip"},
	} {
		if strings.Contains(msg, p[0]) {
			if p[1] == "cap-block-or-dsb" {
				if strings.Contains(msg, "DecryptionSecret") {
					return "dsb-len"
				}
				return "cap-block"
			}
			return p[1]
		}
	}
	if len(msg) > 60 {
		msg = msg[:60]
	}
	return "other:" + msg
}

// the three classes of the C14 driver
func ekind(class string) string {
	switch class {
	case "eof", "ueof", "none", "panic":
		return class
	}
	return "other"
}

type retained struct {
	data []byte
	ci   gopacket.CaptureInfo
	o    *pcapgo.NgPacketOptions
}

func ints(b []byte) []int {
	r := make([]int, len(b))
	for i, x := range b {
		r[i] = int(x)
	}
	return r
}

func pktEvent(p retained) vh.M {
	lt := -1
	if len(p.ci.AncillaryData) > 0 {
		if l, ok := p.ci.AncillaryData[0].(layers.LinkType); ok {
			lt = int(l)
		}
	}
	ev := vh.M{"op": "pkt", "ifc": p.ci.InterfaceIndex, "lt": lt, "s": clipS(p.ci.Timestamp.Unix()), "ns": p.ci.Timestamp.Nanosecond(),
		"cap": clip32(p.ci.CaptureLength), "len": clip32(p.ci.Length), "dl": len(p.data), "dh": hashBytes(p.data),
		"cm": [][]int{}, "fl": -1, "hs": []int{}, "dc": -1, "pid": -1, "q": -1, "vd": []int{}, "oh": hashInts(7, 257)}
	if o := p.o; o != nil {
		cm := [][]int{}
		for _, c := range o.Comments {
			cm = append(cm, ints([]byte(c)))
		}
		ev["cm"] = cm
		if o.Flags != nil {
			ev["fl"] = clipU(uint64(o.Flags.ToUint32()))
		}
		hs, vd := []int{}, []int{}
		acc := 7
		for _, h := range o.Hashes {
			hs = append(hs, len(h.Hash))
			acc = hashInts(acc, int(h.Algorithm))
			acc = hashInts(acc, ints(h.Hash)...)
			acc = hashInts(acc, 256)
		}
		acc = hashInts(acc, 257)
		for _, v := range o.Verdicts {
			vd = append(vd, len(v.Data))
			acc = hashInts(acc, int(v.Type))
			acc = hashInts(acc, ints(v.Data)...)
			acc = hashInts(acc, 256)
		}
		ev["hs"], ev["vd"], ev["oh"] = hs, vd, acc
		if o.DropCount != nil {
			ev["dc"] = clipU(*o.DropCount)
		}
		if o.PacketID != nil {
			ev["pid"] = clipU(*o.PacketID)
		}
		if o.Queue != nil {
			ev["q"] = clipU(uint64(*o.Queue))
		}
	}
	return ev
}

// 32-bit quantities as the model keeps them: exact below 2^30, the order-preserving image Huge above
func clip32(v int) int {
	if v >= 0 && v < 1<<30 {
		return v
	}
	u := uint32(v)
	return 805306368 + int(u>>2)
}

func metaEvent(rd *pcapgo.NgReader) vh.M {
	ev := vh.M{"op": "meta", "link": 0, "nif": 0, "ifs": []vh.M{}, "shb": [][]int{{}, {}, {}, {}}}
	if rd == nil {
		return ev
	}
	vh.Guard(func() {
		ev["link"] = int(rd.LinkType())
		ev["nif"] = rd.NInterfaces()
		ifs := []vh.M{}
		for i := 0; i < rd.NInterfaces(); i++ {
			f, _ := rd.Interface(i)
			ifs = append(ifs, vh.M{"link": int(f.LinkType), "snap": clip32(int(f.SnapLength)), "res": int(f.TimestampResolution), "off": clipU(f.TimestampOffset),
				"name": ints([]byte(f.Name)), "cmt": ints([]byte(f.Comment)), "descr": ints([]byte(f.Description)), "filter": ints([]byte(f.Filter)),
				"os": ints([]byte(f.OS))})
		}
		ev["ifs"] = ifs
		si := rd.SectionInfo()
		ev["shb"] = [][]int{ints([]byte(si.Application)), ints([]byte(si.Comment)), ints([]byte(si.Hardware)), ints([]byte(si.OS))}
	})
	return ev
}

// run reads src with the reader configuration cfg; withOpts selects the ...WithOptions calls.  Returns the events per
// reader call (NewNgReader first) and the reader (for further inspection).
func run(src io.Reader, cfg Cfg, withOpts bool, maxCalls int) (calls [][]vh.M) {
	var cur []vh.M
	opt := pcapgo.NgReaderOptions{WantMixedLinkType: cfg.Mixed, ErrorOnMismatchingLinkType: cfg.Errmis, SkipUnknownVersion: cfg.Skipver,
		SectionEndCallback: func(ifs []pcapgo.NgInterface, _ pcapgo.NgSectionInfo) {
			cur = append(cur, vh.M{"op": "cb", "what": "secend", "n": len(ifs)})
		},
		StatisticsCallback: func(id int, _ pcapgo.NgInterfaceStatistics) {
			cur = append(cur, vh.M{"op": "cb", "what": "stats", "n": id})
		}}
	var rd *pcapgo.NgReader
	var err error
	var kept []retained     // copying calls: observed after the run
	var where [][2]int      // (call index, event index) of each retained packet
	finish := func(class string) {
		cur = append(cur, vh.M{"op": "end", "kind": class}, metaEvent(rd))
		calls = append(calls, cur)
		for i, k := range kept {
			calls[where[i][0]][where[i][1]] = pktEvent(k)
		}
	}
	_, _, p := vh.Guard(func() { rd, err = pcapgo.NewNgReader(src, opt) })
	if p {
		rd = nil
		finish("panic")
		return
	}
	if err != nil {
		rd = nil
		finish(errClass(err))
		return
	}
	cur = append(cur, vh.M{"op": "open"})
	calls = append(calls, cur)
	for n := 0; ; n++ {
		cur = nil
		var data []byte
		var ci gopacket.CaptureInfo
		var o pcapgo.NgPacketOptions
		_, _, p := vh.Guard(func() {
			switch {
			case cfg.Zero && withOpts:
				data, ci, o, err = rd.ZeroCopyReadPacketDataWithOptions()
			case cfg.Zero:
				data, ci, err = rd.ZeroCopyReadPacketData()
			case withOpts:
				data, ci, o, err = rd.ReadPacketDataWithOptions()
			default:
				data, ci, err = rd.ReadPacketData()
			}
		})
		progress.Add(1)
		if p {
			finish("panic")
			return
		}
		if err != nil {
			finish(errClass(err)) // data returned together with an error is not a packet
			return
		}
		if n >= maxCalls {
			finish("none")
			return
		}
		var op *pcapgo.NgPacketOptions
		if withOpts {
			oc := o
			op = &oc
		}
		if cfg.Zero {
			cur = append(cur, pktEvent(retained{data, ci, op}))
		} else {
			kept = append(kept, retained{data, ci, op})
			where = append(where, [2]int{len(calls), len(cur)})
			cur = append(cur, nil)
		}
		calls = append(calls, cur)
	}
}

// ---------------------------------------------------------------------------------------------------------------
// rendering and comparison (pure equality: drift, never a verdict)

func num2(v interface{}) int {
	switch x := v.(type) {
	case float64:
		return int(x)
	case int:
		return x
	case int64:
		return int(x)
	}
	return -999999
}

func list(v interface{}) string {
	var parts []string
	switch xs := v.(type) {
	case []interface{}:
		for _, x := range xs {
			if _, ok := x.([]interface{}); ok {
				parts = append(parts, "["+list(x)+"]")
			} else {
				parts = append(parts, fmt.Sprint(num2(x)))
			}
		}
	case []int:
		for _, x := range xs {
			parts = append(parts, fmt.Sprint(x))
		}
	case [][]int:
		for _, x := range xs {
			parts = append(parts, "["+list(x)+"]")
		}
	}
	return strings.Join(parts, " ")
}

func ifsText(v interface{}) string {
	var parts []string
	one := func(f map[string]interface{}) {
		parts = append(parts, fmt.Sprintf("{link=%d snap=%d res=%d off=%d name=[%s] cmt=[%s] descr=[%s] filter=[%s] os=[%s]}", num2(f["link"]), num2(f["snap"]),
			num2(f["res"]), num2(f["off"]), list(f["name"]), list(f["cmt"]), list(f["descr"]), list(f["filter"]), list(f["os"])))
	}
	switch xs := v.(type) {
	case []interface{}:
		for _, x := range xs {
			one(x.(map[string]interface{}))
		}
	case []vh.M:
		for _, x := range xs {
			one(x)
		}
	}
	return strings.Join(parts, "")
}

// canon renders the compared part of an event (the model's ghost fields doff, boff, buf, anc are not observable)
func canon(e vh.M, withOpts bool) string {
	switch e["op"] {
	case "open":
		return "open"
	case "cb":
		return fmt.Sprintf("cb %v n=%d", e["what"], num2(e["n"]))
	case "end":
		return fmt.Sprintf("end %v", e["kind"])
	case "meta":
		return fmt.Sprintf("meta link=%d nif=%d ifs=%s shb=%s", num2(e["link"]), num2(e["nif"]), ifsText(e["ifs"]), list(e["shb"]))
	case "pkt":
		s := fmt.Sprintf("pkt ifc=%d lt=%d s=%d ns=%d cap=%d len=%d dl=%d dh=%d", num2(e["ifc"]), num2(e["lt"]), num2(e["s"]), num2(e["ns"]), num2(e["cap"]),
			num2(e["len"]), num2(e["dl"]), num2(e["dh"]))
		if withOpts {
			s += fmt.Sprintf(" cm=%s fl=%d hs=[%s] dc=%d pid=%d q=%d vd=[%s] oh=%d", list(e["cm"]), num2(e["fl"]), list(e["hs"]), num2(e["dc"]), num2(e["pid"]),
				num2(e["q"]), list(e["vd"]), num2(e["oh"]))
		}
		return s
	}
	return fmt.Sprintf("?%v", e["op"])
}

func canonCalls(calls [][]vh.M, withOpts bool) []string {
	var out []string
	for _, c := range calls {
		var parts []string
		for _, e := range c {
			parts = append(parts, canon(e, withOpts))
		}
		out = append(out, strings.Join(parts, " | "))
	}
	return out
}

// ---------------------------------------------------------------------------------------------------------------
// digests of cmd/pcapio (package main there, hence repeated): equality only

func dig(parts ...interface{}) string {
	h := fnv.New64a()
	var x [9]byte
	for _, p := range parts {
		switch v := p.(type) {
		case []byte:
			x[0] = 'b'
			binary.LittleEndian.PutUint64(x[1:], uint64(len(v)))
			h.Write(x[:])
			h.Write(v)
		case int:
			x[0] = 'i'
			binary.LittleEndian.PutUint64(x[1:], uint64(v))
			h.Write(x[:])
		case int64:
			x[0] = 'i'
			binary.LittleEndian.PutUint64(x[1:], uint64(v))
			h.Write(x[:])
		case string:
			x[0] = 's'
			binary.LittleEndian.PutUint64(x[1:], uint64(len(v)))
			h.Write(x[:])
			h.Write([]byte(v))
		default:
			fmt.Fprintf(h, "%v|", v)
		}
	}
	const hx = "0123456789abcdef"
	v := h.Sum64()
	var o [12]byte
	for i := range o {
		o[i] = hx[v&15]
		v >>= 4
	}
	return string(o[:])
}

func optDigest(o *pcapgo.NgPacketOptions) string {
	var parts []interface{}
	for _, h := range o.Hashes {
		parts = append(parts, int(h.Algorithm), h.Hash)
	}
	parts = append(parts, "v")
	for _, v := range o.Verdicts {
		parts = append(parts, int(v.Type), v.Data)
	}
	return dig(parts...)
}

var _ = bytes.NewReader
