package main

import (
	"fmt"

	"verif/harness/corpus"
)

func main() {
	fx := corpus.Load()
	cs := corpus.TrailingLengthCases(fx, 12)
	by := map[string]int{}
	for _, c := range cs {
		by[c.First.String()]++
	}
	fmt.Println(len(fx), len(cs), by)
}
