package main

import (
	"fmt"
	"strings"

	"github.com/gopacket/gopacket"
	"verif/harness/corpus"
	"verif/harness/vh"
)

func main() {
	n, pan := 0, map[string]int{}
	for _, f := range corpus.Load() {
		if !strings.Contains(strings.ToLower(f.Name), "lldp") && !strings.Contains(f.Name, "LinkLayerDiscovery") {
			continue
		}
		for p := 0; p < len(f.Data); p++ {
			for _, v := range []byte{0, 1, 2, 248, 249, 250, 255} {
				d := append([]byte(nil), f.Data...)
				d[p] = v
				n++
				_, site, pn := vh.Guard(func() {
					pk := gopacket.NewPacket(d, f.First, gopacket.DecodeOptions{SkipDecodeRecovery: true})
					pk.Layers()
				})
				if pn {
					pan[vh.SiteSig(corpus.Repo(), site)]++
				}
			}
		}
	}
	fmt.Println(n, pan)
}
