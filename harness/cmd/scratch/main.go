package main

import (
	"bytes"
	"fmt"

	"github.com/gopacket/gopacket"
	"github.com/gopacket/gopacket/layers"
	"verif/harness/corpus"
	"verif/harness/vh"
)

func main() {
	for _, f := range corpus.Load() {
		if f.Name != "radiotap_test.go:testPacketRadiotap3#4" {
			continue
		}
		d := append([]byte(nil), f.Data...)
		d[7] ^= 1 << 0
		for bit := 0; bit < 8; bit++ {
			d := append([]byte(nil), f.Data...)
			d[7] ^= 1 << uint(bit)
			orig := append([]byte(nil), d...)
			p1 := gopacket.NewPacket(d, layers.LayerTypeRadioTap, gopacket.NoCopy)
			same := bytes.Equal(orig, d)
			p2 := gopacket.NewPacket(d, layers.LayerTypeRadioTap, gopacket.NoCopy)
			a, b := vh.Render(p1.Layers()[0]), vh.Render(p2.Layers()[0])
			fmt.Println(bit, "input intact:", same, "digest equal:", a == b)
			if a != b {
				for i := range a {
					if i >= len(b) || a[i] != b[i] {
						fmt.Println(a[max(0, i-80):min(len(a), i+80)])
						fmt.Println(b[max(0, i-80):min(len(b), i+80)])
						break
					}
				}
			}
		}
	}
}
