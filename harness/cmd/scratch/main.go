package main

import (
	"fmt"

	"verif/harness/corpus"
)

func main() {
	fx := corpus.Load()
	cs := corpus.HeaderEndCases(fx)
	by := map[string]int{}
	for _, c := range cs {
		by[c.First.String()]++
	}
	fmt.Println(len(cs), by["Ethernet"], by["IPv4"], by["IPv6"], by["IPv6HopByHop"], by["IPv6Destination"], by["TCP"], by["UDP"])
}
