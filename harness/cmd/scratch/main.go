package main

import (
	"fmt"

	"github.com/gopacket/gopacket"
	"github.com/gopacket/gopacket/layers"
	"verif/harness/vh"
)

func main() {
	for _, lt := range []gopacket.LayerType{layers.LayerTypeTCP, layers.LayerTypeUDP, layers.LayerTypeSCTP, layers.LayerTypeUDPLite, layers.LayerTypeRUDP} {
		p := gopacket.NewPacket([]byte{1, 2, 3}, lt, gopacket.Default)
		tl := p.TransportLayer()
		fmt.Println(lt, "layers", len(p.Layers()), "transport nil:", tl == nil, "err:", p.ErrorLayer() != nil)
		if tl != nil {
			msg, site, pn := vh.Guard(func() { _ = tl.TransportFlow().String() })
			fmt.Println("  flow.String panic:", pn, msg, site)
			msg, site, pn = vh.Guard(func() { a, b := tl.TransportFlow().Endpoints(); _ = a.String(); _ = b.String(); _ = tl.TransportFlow().FastHash() })
			fmt.Println("  endpoints panic:", pn, msg)
		}
	}
	// network layers
	for _, lt := range []gopacket.LayerType{layers.LayerTypeIPv4, layers.LayerTypeIPv6, layers.LayerTypeEthernet, layers.LayerTypeLinuxSLL} {
		p := gopacket.NewPacket([]byte{1, 2, 3}, lt, gopacket.Default)
		if nl := p.NetworkLayer(); nl != nil {
			msg, _, pn := vh.Guard(func() { _ = nl.NetworkFlow().String() })
			fmt.Println(lt, "netflow.String panic:", pn, msg)
		}
		if ll := p.LinkLayer(); ll != nil {
			msg, _, pn := vh.Guard(func() { _ = ll.LinkFlow().String() })
			fmt.Println(lt, "linkflow.String panic:", pn, msg)
		}
	}
}
