// reasm_impl: model -> implementation binding for specs/ReasmImpl.tla (the transcription of
// reassembly/tcpassembly.go).  Every behaviour exported by TLC from ReasmImplMC carries its
// configuration, its operations and the events the model predicts (deliveries with runs, skip, end,
// saved length, KeepFrom; stream creation / completion; pages in use, connections and queue scalars
// after every API call).  The real Assembler is run with the same configuration and operations:
//
//   - what it did is written as an ndjson trace in the format of cmd/reasm, so that TLC validates it
//     against Reasm.tla (ReasmTrace.tla) - the only source of verdicts;
//   - the observed events are compared with the predicted ones.  A difference is "drift" between the
//     model and the code; it is reported (drift file, counters) and never decides anything.
//
// Scale: one model unit is 1900/P bytes, so that a model page of P units is exactly one real page.
package main

import (
	"bufio"
	"encoding/json"
	"flag"
	"fmt"
	"os"
	"runtime"
	"sort"
	"sync"
	"sync/atomic"
	"time"

	"github.com/gopacket/gopacket"
	"github.com/gopacket/gopacket/layers"
	"github.com/gopacket/gopacket/reassembly"
	"verif/harness/asmc"
	"verif/harness/implcmp"
	"verif/harness/vh"
)

const pageBytes = 1900

type mcfg struct {
	Limit  int  `json:"limit"`
	Keep   int  `json:"keep"` // -1 none, 0 KeepFrom(0), 2 KeepFrom(half, in whole units), 3 alternate 0 / none
	Force  bool `json:"force"`
	Isn    int  `json:"isn"` // model ISN of direction 0 (sequence space of size M)
	Remove bool `json:"remove"`
}

type behaviour struct {
	Cfg   mcfg              `json:"cfg"`
	Ops   json.RawMessage   `json:"ops"`
	Pred  [][]vh.M          `json:"pred"`
	Tail  json.RawMessage   `json:"tail,omitempty"` // operations appended after the predicted ones (run and judged, not compared)
	Flags []string          `json:"flags"`
	Total int               `json:"total,omitempty"` // MaxBufferedPagesTotal (hand-written scenarios only)
	Note  string            `json:"note,omitempty"`
	X     map[string]string `json:"-"`
}

type ctx struct{ ci gopacket.CaptureInfo }

func (c *ctx) GetCaptureInfo() gopacket.CaptureInfo { return c.ci }

type harness struct {
	sc       int
	cfg      mcfg
	M, S     int
	units    int
	content  map[int]*asmc.Content
	pool     *reassembly.StreamPool
	asm      *reassembly.Assembler
	curForce bool
	seen     map[int]bool
	live     bool
	firstDir int
	keepFlip bool
	pending  vh.M
	obs      []vh.M // events of the operation in progress
	all      []vh.M // all events of the scenario (written as one block)
}

func (h *harness) emit(ev vh.M) {
	ev["sc"] = h.sc
	h.all = append(h.all, ev)
	h.obs = append(h.obs, ev)
}

func (h *harness) flushPending() {
	if h.pending != nil {
		h.emit(h.pending)
		h.pending = nil
	}
}

// model ISN -> real ISN: the model's sequence number 0 (the wrap) falls on stream unit k = M-1-isn;
// the real stream puts its wrap on the same unit boundary.
func (h *harness) isn(d int) uint32 {
	m := h.cfg.Isn
	if d == 1 {
		m = (h.cfg.Isn + h.M/2 + 3) % h.M
	}
	k := h.M - 1 - m
	return uint32(0xffffffff) - uint32(h.S*k)
}

func (h *harness) cont(d int) *asmc.Content {
	if h.content[d] == nil {
		h.content[d] = asmc.NewContent(h.units*h.S, uint64(2+d))
	}
	return h.content[d]
}

type stream struct{ h *harness }

func (h *harness) New(netFlow, tcpFlow gopacket.Flow, tcp *layers.TCP, ac reassembly.AssemblerContext) reassembly.Stream {
	d := 0
	if tcp.SrcPort == 80 {
		d = 1
	}
	h.live = true
	h.seen[0], h.seen[1] = false, false
	h.firstDir = d
	h.emit(vh.M{"op": "new", "c": 1})
	h.flushPending()
	return &stream{h: h}
}

func (s *stream) Accept(tcp *layers.TCP, ci gopacket.CaptureInfo, dir reassembly.TCPFlowDirection, nextSeq reassembly.Sequence, start *bool, ac reassembly.AssemblerContext) bool {
	s.h.flushPending()
	if s.h.curForce {
		*start = true
	}
	return true
}

func (s *stream) ReassembledSG(sg reassembly.ScatterGather, ac reassembly.AssemblerContext) {
	h := s.h
	dir, start, end, skip := sg.Info()
	d := h.firstDir
	if dir == reassembly.TCPDirServerToClient {
		d = 1 - d
	}
	total, saved := sg.Lengths()
	b := sg.Fetch(total)
	if saved > total {
		saved = total
	}
	ct := h.cont(d)
	keep := -1
	switch h.cfg.Keep {
	case 0:
		keep = 0
	case 2:
		keep = (total / h.S / 2) * h.S // half of the delivery, in whole model units
	case 3:
		h.keepFlip = !h.keepFlip
		if h.keepFlip {
			keep = 0
		}
	}
	if keep > total {
		keep = total
	}
	h.emit(vh.M{"op": "sg", "c": 1, "d": d, "srun": ct.Runs(b[:saved]), "nrun": ct.Runs(b[saved:]),
		"skip": skip, "start": start, "end": end, "keep": keep, "total": total})
	if keep >= 0 {
		sg.KeepFrom(keep)
	}
}

func (s *stream) ReassemblyComplete(ac reassembly.AssemblerContext) bool {
	s.h.emit(vh.M{"op": "complete", "c": 1, "remove": s.h.cfg.Remove})
	if s.h.cfg.Remove {
		s.h.live = false
	}
	return s.h.cfg.Remove
}

func ts(i int) time.Time { return time.Unix(int64(1000+i), 0) }

func (h *harness) api(call string, t int, pktpages int) {
	maxq := 0
	oldest := -1
	for _, st := range h.pool.VerifHalves() {
		if st.Queued > maxq {
			maxq = st.Queued
		}
		if !st.HeadSeen.IsZero() {
			v := int(st.HeadSeen.Unix() - 1000)
			if oldest < 0 || v < oldest {
				oldest = v
			}
		}
	}
	h.emit(vh.M{"op": "api", "call": call, "t": t, "pages": h.asm.VerifPagesUsed(),
		"conns": h.pool.VerifConnCount(), "maxq": maxq, "oldest": oldest, "pktpages": pktpages})
}

func (h *harness) step(i int, op asmc.Op) {
	t := i + 1
	S := h.S
	switch op.Kind {
	case "seg":
		ct := h.cont(op.D)
		tcp := &layers.TCP{SrcPort: 1001, DstPort: 80, SYN: op.Syn, FIN: op.Fin, RST: op.Rst, ACK: !op.Syn}
		nf, _ := gopacket.FlowFromEndpoints(layers.NewIPEndpoint([]byte{1, 2, 3, 1}), layers.NewIPEndpoint([]byte{5, 6, 7, 8}))
		if op.D == 1 {
			tcp.SrcPort, tcp.DstPort = tcp.DstPort, tcp.SrcPort
			nf = nf.Reverse()
		}
		tcp.SetInternalPortsForTesting()
		isn := h.isn(op.D)
		if op.Syn {
			tcp.Seq = isn
		} else {
			tcp.Seq = isn + 1 + uint32(op.Lo*S)
			tcp.Payload = ct.B[op.Lo*S : op.Hi*S]
		}
		force := h.cfg.Force && !op.Syn && (!h.live || !h.seen[op.D])
		lo, hi := op.Lo*S, op.Hi*S
		if op.Syn {
			lo, hi = 0, 0
		}
		h.curForce = force
		h.pending = vh.M{"op": "seg", "c": 1, "d": op.D, "lo": lo, "hi": hi, "syn": op.Syn, "fin": op.Fin,
			"rst": op.Rst, "force": force, "ts": t}
		h.asm.AssembleWithContext(nf, tcp, &ctx{ci: gopacket.CaptureInfo{Timestamp: ts(t)}})
		h.flushPending()
		h.curForce = false
		h.seen[op.D] = true
		h.api("assemble", 0, (hi-lo+pageBytes-1)/pageBytes)
	case "flushall":
		h.emit(vh.M{"op": "flushb", "kind": "all", "t": 0})
		h.asm.FlushAll()
		h.emit(vh.M{"op": "flushe", "kind": "all", "t": 0})
		h.api("flushall", 0, 0)
	case "flusholder":
		h.emit(vh.M{"op": "flushb", "kind": "older", "t": op.T})
		h.asm.FlushCloseOlderThan(ts(op.T))
		h.emit(vh.M{"op": "flushe", "kind": "older", "t": op.T})
		h.api("flusholder", op.T, 0)
	}
}

var progress atomic.Int64

func watchdog(tr *vh.Trace) {
	last, stuck := int64(-1), 0
	for {
		time.Sleep(1 * time.Second)
		cur := progress.Load()
		if cur == last {
			stuck++
		} else {
			last, stuck = cur, 0
		}
		if stuck >= 15 && cur > 0 {
			tr.Emit(vh.M{"op": "hang", "sc": int(cur)})
			tr.Close()
			fmt.Printf("{\"scenarios\":%d,\"events\":%d,\"hang\":true}\n", cur, tr.N)
			os.Exit(3)
		}
	}
}

type result struct {
	events                           []vh.M
	drift                            *implcmp.Drift
	ncmp, nsg, nskip, nsaved, npanic int
}

// runBehaviour replays one behaviour on a fresh pool + assembler and compares observed with predicted events.
func runBehaviour(sc int, line []byte, M, S, units int) (r result) {
	var b behaviour
	if err := json.Unmarshal(line, &b); err != nil {
		vh.Fatal("bad behaviour", err)
	}
	ops, err := asmc.ParseTLC(b.Ops)
	if err != nil {
		vh.Fatal("bad ops", err)
	}
	npred := len(ops)
	if len(b.Tail) > 0 {
		tail, err := asmc.ParseTLC(b.Tail)
		if err != nil {
			vh.Fatal("bad tail", err)
		}
		ops = append(ops, tail...)
	}
	h := &harness{sc: sc, cfg: b.Cfg, M: M, S: S, units: units, content: map[int]*asmc.Content{}, seen: map[int]bool{}}
	h.all = append(h.all, vh.M{"op": "cfg", "sc": sc, "asm": "reassembly", "limit": b.Cfg.Limit, "keep": b.Cfg.Keep, "force": b.Cfg.Force,
		"scale": S, "isn": int64(h.isn(0)), "misn": b.Cfg.Isn, "remove": b.Cfg.Remove})
	h.pool = reassembly.NewStreamPool(h)
	h.asm = reassembly.NewAssembler(h.pool)
	h.asm.MaxBufferedPagesPerConnection = b.Cfg.Limit
	h.asm.MaxBufferedPagesTotal = b.Total
	for i, op := range ops {
		h.obs = h.obs[:0]
		msg, site, p := vh.Guard(func() { h.step(i, op) })
		if p {
			if len(msg) > 100 {
				msg = msg[:100]
			}
			h.pending = nil
			h.emit(vh.M{"op": "panic", "msg": msg, "site": site})
			r.npanic++
		}
		for _, e := range h.obs {
			if e["op"] == "sg" {
				r.nsg++
				if implcmp.Num(e["skip"]) > 0 {
					r.nskip++
				}
				if rr, ok := e["srun"].([][2]int); ok && len(rr) > 0 {
					r.nsaved++
				}
			}
		}
		if b.Pred != nil && r.drift == nil && i < npred {
			var pe []vh.M
			if i < len(b.Pred) {
				pe = b.Pred[i]
			}
			ps, os_, kind, same := implcmp.Compare(pe, h.obs, S)
			r.ncmp += len(os_)
			if !same {
				r.drift = &implcmp.Drift{Sc: sc, Cfg: b.Cfg, Ops: string(b.Ops), OpIndex: i, Kind: kind, Predicted: ps, Observed: os_}
			}
		}
		if p {
			break
		}
	}
	if b.Pred != nil && r.drift == nil && len(b.Pred) > npred {
		r.drift = &implcmp.Drift{Sc: sc, Cfg: b.Cfg, Ops: string(b.Ops), OpIndex: len(ops), Kind: "length"}
	}
	r.events = h.all
	return r
}

func main() {
	in := flag.String("behaviours", "", "ndjson of behaviours exported by TLC from ReasmImplMC")
	out := flag.String("trace", "trace.ndjson", "trace output (format of cmd/reasm)")
	driftOut := flag.String("drift", "drift.ndjson", "drift records output")
	units := flag.Int("units", 3, "stream length L of the model")
	M := flag.Int("M", 32, "size of the model's sequence space")
	P := flag.Int("P", 2, "model page size")
	maxDrift := flag.Int("maxdrift", 40, "drift examples kept")
	par := flag.Int("par", 0, "worker goroutines (0 = GOMAXPROCS); each behaviour has its own pool and assembler")
	flag.Parse()
	if pageBytes%*P != 0 {
		vh.Fatal("P must divide 1900")
	}
	S := pageBytes / *P
	tr := vh.NewTrace(*out)
	progress.Store(1)
	go watchdog(tr)
	f, err := os.Open(*in)
	if err != nil {
		vh.Fatal(err)
	}
	df, err := os.Create(*driftOut)
	if err != nil {
		vh.Fatal(err)
	}
	dw := bufio.NewWriter(df)
	rd := bufio.NewScanner(f)
	rd.Buffer(make([]byte, 1<<20), 1<<26)
	sc, ndrift, ncmp, nsg, nskip, nsaved, npanic := 0, 0, 0, 0, 0, 0, 0
	driftKinds := map[string]int{}
	type job struct {
		sc   int
		line []byte
	}
	jobs := make(chan job, 256)
	var mu sync.Mutex
	var wg sync.WaitGroup
	workers := runtime.GOMAXPROCS(0)
	if *par > 0 {
		workers = *par
	}
	for w := 0; w < workers; w++ {
		wg.Add(1)
		go func() {
			defer wg.Done()
			for j := range jobs {
				r := runBehaviour(j.sc, j.line, *M, S, *units)
				tr.EmitBlock(r.events)
				progress.Add(1)
				mu.Lock()
				ncmp += r.ncmp
				nsg += r.nsg
				nskip += r.nskip
				nsaved += r.nsaved
				npanic += r.npanic
				if r.drift != nil {
					ndrift++
					driftKinds[r.drift.Kind]++
					if ndrift <= *maxDrift {
						jb, _ := json.Marshal(r.drift)
						dw.Write(jb)
						dw.WriteByte('\n')
					}
				}
				mu.Unlock()
			}
		}()
	}
	for rd.Scan() {
		line := rd.Bytes()
		if len(line) == 0 {
			continue
		}
		sc++
		jobs <- job{sc: sc, line: append([]byte(nil), line...)}
	}
	close(jobs)
	wg.Wait()
	dw.Flush()
	df.Close()
	tr.Close()
	kinds, _ := json.Marshal(driftKinds)
	var keys []string
	for k := range driftKinds {
		keys = append(keys, k)
	}
	sort.Strings(keys)
	fmt.Printf("{\"scenarios\":%d,\"events\":%d,\"compared_events\":%d,\"drift\":%d,\"drift_kinds\":%s,\"deliveries\":%d,\"deliveries_with_skip\":%d,\"deliveries_with_saved\":%d,\"panics\":%d}\n",
		sc, tr.N, ncmp, ndrift, kinds, nsg, nskip, nsaved, npanic)
}
