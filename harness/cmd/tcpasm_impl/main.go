// tcpasm_impl: model -> implementation binding for specs/TcpasmImpl.tla (the transcription of
// tcpassembly/assembly.go).  Behaviours exported by TLC from TcpasmImplMC carry configuration,
// operations and predicted events; the real tcpassembly.Assembler is run with the same configuration
// and operations, what it did is written as a trace in the format of cmd/tcpasm (validated by TLC
// against Reasm.tla - the only source of verdicts) and compared with the prediction (drift: reported,
// never a verdict).  One model unit is 1900/P bytes.  (Own binary: reassembly and tcpassembly
// register the same flags.)
package main

import (
	"bufio"
	"encoding/json"
	"flag"
	"fmt"
	"os"
	"runtime"
	"sync"
	"sync/atomic"
	"time"

	"github.com/gopacket/gopacket"
	"github.com/gopacket/gopacket/layers"
	"github.com/gopacket/gopacket/tcpassembly"
	"verif/harness/asmc"
	"verif/harness/implcmp"
	"verif/harness/vh"
)

const pageBytes = 1900

type mcfg struct {
	Limit int `json:"limit"`
	Isn   int `json:"isn"`
}

type behaviour struct {
	Cfg  mcfg            `json:"cfg"`
	Ops  json.RawMessage `json:"ops"`
	Pred [][]vh.M        `json:"pred"`
	Tail json.RawMessage `json:"tail,omitempty"` // operations appended after the predicted ones (run and judged, not compared)
}

type harness struct {
	sc      int
	cfg     mcfg
	M, S    int
	units   int
	content *asmc.Content
	pool    *tcpassembly.StreamPool
	asm     *tcpassembly.Assembler
	pending vh.M
	obs     []vh.M
	all     []vh.M
}

const cid = 2 // 2*c + d with c = 1, d = 0 (cmd/tcpasm numbering)

func (h *harness) emit(ev vh.M) {
	ev["sc"] = h.sc
	h.all = append(h.all, ev)
	h.obs = append(h.obs, ev)
}

func (h *harness) flushPending() {
	if h.pending != nil {
		h.emit(h.pending)
		h.pending = nil
	}
}

// the model's sequence number 0 (the wrap) falls on stream unit k = M-1-isn; so does the real one
func (h *harness) isn() uint32 {
	k := h.M - 1 - h.cfg.Isn
	return uint32(0xffffffff) - uint32(h.S*k)
}

type stream struct{ h *harness }

func (h *harness) New(netFlow, tcpFlow gopacket.Flow) tcpassembly.Stream {
	h.emit(vh.M{"op": "new", "c": cid})
	h.flushPending()
	return &stream{h: h}
}

func (s *stream) Reassembled(rs []tcpassembly.Reassembly) {
	h := s.h
	h.flushPending()
	for _, r := range rs {
		h.emit(vh.M{"op": "sg", "c": cid, "d": 0, "srun": [][2]int{}, "nrun": h.content.Runs(r.Bytes),
			"skip": r.Skip, "start": r.Start, "end": r.End, "keep": -1, "total": len(r.Bytes)})
	}
}

func (s *stream) ReassemblyComplete() {
	s.h.flushPending()
	s.h.emit(vh.M{"op": "complete", "c": cid, "remove": true})
}

func ts(i int) time.Time { return time.Unix(int64(1000+i), 0) }

func (h *harness) api(call string, t int, pktpages int) {
	maxq := 0
	oldest := -1
	for _, st := range h.pool.VerifConns() {
		if st.Queued > maxq {
			maxq = st.Queued
		}
		if !st.HeadSeen.IsZero() {
			v := int(st.HeadSeen.Unix() - 1000)
			if oldest < 0 || v < oldest {
				oldest = v
			}
		}
	}
	h.emit(vh.M{"op": "api", "call": call, "t": t, "pages": h.asm.VerifPagesUsed(),
		"conns": h.pool.VerifConnCount(), "maxq": maxq, "oldest": oldest, "pktpages": pktpages})
}

func (h *harness) step(i int, op asmc.Op) {
	t := i + 1
	S := h.S
	switch op.Kind {
	case "seg":
		tcp := &layers.TCP{SrcPort: 1001, DstPort: 80, SYN: op.Syn, FIN: op.Fin, RST: op.Rst, ACK: !op.Syn}
		nf, _ := gopacket.FlowFromEndpoints(layers.NewIPEndpoint([]byte{1, 2, 3, 1}), layers.NewIPEndpoint([]byte{5, 6, 7, 8}))
		tcp.SetInternalPortsForTesting()
		lo, hi := op.Lo*S, op.Hi*S
		if op.Syn {
			tcp.Seq = h.isn()
			lo, hi = 0, 0
		} else {
			tcp.Seq = h.isn() + 1 + uint32(lo)
			tcp.Payload = h.content.B[lo:hi]
			tcp.BaseLayer.Payload = tcp.Payload
		}
		h.pending = vh.M{"op": "seg", "c": cid, "d": 0, "lo": lo, "hi": hi, "syn": op.Syn, "fin": op.Fin,
			"rst": op.Rst, "force": false, "ts": t}
		h.asm.AssembleWithTimestamp(nf, tcp, ts(t))
		h.flushPending()
		h.api("assemble", 0, (hi-lo+pageBytes-1)/pageBytes)
	case "flushall":
		h.emit(vh.M{"op": "flushb", "kind": "all", "t": 0})
		h.asm.FlushAll()
		h.emit(vh.M{"op": "flushe", "kind": "all", "t": 0})
		h.api("flushall", 0, 0)
	case "flusholder":
		h.emit(vh.M{"op": "flushb", "kind": "older", "t": op.T})
		h.asm.FlushOlderThan(ts(op.T))
		h.emit(vh.M{"op": "flushe", "kind": "older", "t": op.T})
		h.api("flusholder", op.T, 0)
	}
}

var progress atomic.Int64

func watchdog(tr *vh.Trace) {
	last, stuck := int64(-1), 0
	for {
		time.Sleep(1 * time.Second)
		cur := progress.Load()
		if cur == last {
			stuck++
		} else {
			last, stuck = cur, 0
		}
		if stuck >= 15 {
			tr.Emit(vh.M{"op": "hang", "sc": int(cur)})
			tr.Close()
			fmt.Printf("{\"scenarios\":%d,\"events\":%d,\"hang\":true}\n", cur, tr.N)
			os.Exit(3)
		}
	}
}

type result struct {
	events             []vh.M
	drift              *implcmp.Drift
	ncmp, nsg, nskip   int
	npanic, nmultipart int
}

func runBehaviour(sc int, line []byte, M, S, units int) (r result) {
	var b behaviour
	if err := json.Unmarshal(line, &b); err != nil {
		vh.Fatal("bad behaviour", err)
	}
	ops, err := asmc.ParseTLC(b.Ops)
	if err != nil {
		vh.Fatal("bad ops", err)
	}
	npred := len(ops)
	if len(b.Tail) > 0 {
		tail, err := asmc.ParseTLC(b.Tail)
		if err != nil {
			vh.Fatal("bad tail", err)
		}
		ops = append(ops, tail...)
	}
	h := &harness{sc: sc, cfg: b.Cfg, M: M, S: S, units: units, content: asmc.NewContent(units*S, 2)}
	h.all = append(h.all, vh.M{"op": "cfg", "sc": sc, "asm": "tcpassembly", "limit": b.Cfg.Limit, "keep": -1, "force": false,
		"scale": S, "isn": int64(h.isn()), "misn": b.Cfg.Isn, "remove": true})
	h.pool = tcpassembly.NewStreamPool(h)
	h.asm = tcpassembly.NewAssembler(h.pool)
	h.asm.MaxBufferedPagesPerConnection = b.Cfg.Limit
	for i, op := range ops {
		h.obs = h.obs[:0]
		msg, site, p := vh.Guard(func() { h.step(i, op) })
		if p {
			if len(msg) > 100 {
				msg = msg[:100]
			}
			h.pending = nil
			h.emit(vh.M{"op": "panic", "msg": msg, "site": site})
			r.npanic++
		}
		n := 0
		for _, e := range h.obs {
			if e["op"] == "sg" {
				r.nsg++
				n++
				if implcmp.Num(e["skip"]) > 0 {
					r.nskip++
				}
			}
		}
		if n > 1 {
			r.nmultipart++
		}
		if b.Pred != nil && r.drift == nil && i < npred {
			var pe []vh.M
			if i < len(b.Pred) {
				pe = b.Pred[i]
			}
			ps, os_, kind, same := implcmp.Compare(pe, h.obs, S)
			r.ncmp += len(os_)
			if !same {
				r.drift = &implcmp.Drift{Sc: sc, Cfg: b.Cfg, Ops: string(b.Ops), OpIndex: i, Kind: kind, Predicted: ps, Observed: os_}
			}
		}
		if p {
			break
		}
	}
	if b.Pred != nil && r.drift == nil && len(b.Pred) > npred {
		r.drift = &implcmp.Drift{Sc: sc, Cfg: b.Cfg, Ops: string(b.Ops), OpIndex: len(ops), Kind: "length"}
	}
	r.events = h.all
	return r
}

func main() {
	in := flag.String("behaviours", "", "ndjson of behaviours exported by TLC from TcpasmImplMC")
	out := flag.String("trace", "trace.ndjson", "trace output (format of cmd/tcpasm)")
	driftOut := flag.String("drift", "drift.ndjson", "drift records output")
	units := flag.Int("units", 3, "stream length L of the model")
	M := flag.Int("M", 32, "size of the model's sequence space")
	P := flag.Int("P", 2, "model page size")
	maxDrift := flag.Int("maxdrift", 40, "drift examples kept")
	par := flag.Int("par", 0, "worker goroutines (0 = GOMAXPROCS)")
	flag.Parse()
	if pageBytes%*P != 0 {
		vh.Fatal("P must divide 1900")
	}
	S := pageBytes / *P
	tr := vh.NewTrace(*out)
	progress.Store(1)
	go watchdog(tr)
	f, err := os.Open(*in)
	if err != nil {
		vh.Fatal(err)
	}
	df, err := os.Create(*driftOut)
	if err != nil {
		vh.Fatal(err)
	}
	dw := bufio.NewWriter(df)
	rd := bufio.NewScanner(f)
	rd.Buffer(make([]byte, 1<<20), 1<<26)
	sc, ndrift, ncmp, nsg, nskip, npanic, nmulti := 0, 0, 0, 0, 0, 0, 0
	driftKinds := map[string]int{}
	type job struct {
		sc   int
		line []byte
	}
	jobs := make(chan job, 256)
	var mu sync.Mutex
	var wg sync.WaitGroup
	workers := runtime.GOMAXPROCS(0)
	if *par > 0 {
		workers = *par
	}
	for w := 0; w < workers; w++ {
		wg.Add(1)
		go func() {
			defer wg.Done()
			for j := range jobs {
				r := runBehaviour(j.sc, j.line, *M, S, *units)
				tr.EmitBlock(r.events)
				progress.Add(1)
				mu.Lock()
				ncmp += r.ncmp
				nsg += r.nsg
				nskip += r.nskip
				npanic += r.npanic
				nmulti += r.nmultipart
				if r.drift != nil {
					ndrift++
					driftKinds[r.drift.Kind]++
					if ndrift <= *maxDrift {
						jb, _ := json.Marshal(r.drift)
						dw.Write(jb)
						dw.WriteByte('\n')
					}
				}
				mu.Unlock()
			}
		}()
	}
	for rd.Scan() {
		line := rd.Bytes()
		if len(line) == 0 {
			continue
		}
		sc++
		jobs <- job{sc: sc, line: append([]byte(nil), line...)}
	}
	close(jobs)
	wg.Wait()
	dw.Flush()
	df.Close()
	tr.Close()
	kinds, _ := json.Marshal(driftKinds)
	fmt.Printf("{\"scenarios\":%d,\"events\":%d,\"compared_events\":%d,\"drift\":%d,\"drift_kinds\":%s,\"deliveries\":%d,\"deliveries_with_skip\":%d,\"deliveries_with_saved\":0,\"multi_part_batches\":%d,\"panics\":%d}\n",
		sc, tr.N, ncmp, ndrift, kinds, nsg, nskip, nmulti, npanic)
}
