package main

// Round trip and truncation (C14): every scenario is written with the real writer, the produced bytes are
// observed (size, block walk, offsets after every writer call), read back with every read call of the real
// reader, handed to libpcap, and then re-read from EVERY proper prefix.  All observations go to the trace;
// PcapFile.tla decides.

import (
	"bufio"
	"bytes"
	"encoding/json"
	"errors"
	"io"
	"os"
	"path/filepath"
	"sync"
	"sync/atomic"

	"github.com/gopacket/gopacket"
	"github.com/gopacket/gopacket/layers"
	"github.com/gopacket/gopacket/pcapgo"
	"verif/harness/vh"
)

var progress atomic.Int64

func ekind(err error) string {
	switch {
	case err == nil:
		return "none"
	case errors.Is(err, io.ErrUnexpectedEOF):
		return "ueof"
	case errors.Is(err, io.EOF):
		return "eof"
	}
	return "other"
}

// reader is the common face of pcapgo.Reader / NgReader / SnoopReader for one read call kind
type reader struct {
	p  *pcapgo.Reader
	ng *pcapgo.NgReader
	sn *pcapgo.SnoopReader
}

func open(format string, r io.Reader, opt pcapgo.NgReaderOptions) (rd reader, err error) {
	switch format {
	case "pcap":
		rd.p, err = pcapgo.NewReader(r)
	case "ng":
		rd.ng, err = pcapgo.NewNgReader(r, opt)
	case "snoop":
		rd.sn, err = pcapgo.NewSnoopReader(r)
	}
	return
}

// next performs one read call of kind mode: copy | zero | optc | optz
func (rd *reader) next(mode string) (data []byte, ci gopacket.CaptureInfo, o pcapgo.NgPacketOptions, err error) {
	zero := mode == "zero" || mode == "optz"
	switch {
	case rd.p != nil:
		if zero {
			data, ci, err = rd.p.ZeroCopyReadPacketData()
		} else {
			data, ci, err = rd.p.ReadPacketData()
		}
	case rd.sn != nil:
		if zero {
			data, ci, err = rd.sn.ZeroCopyReadPacketData()
		} else {
			data, ci, err = rd.sn.ReadPacketData()
		}
	case rd.ng != nil:
		switch mode {
		case "copy":
			data, ci, err = rd.ng.ReadPacketData()
		case "zero":
			data, ci, err = rd.ng.ZeroCopyReadPacketData()
		case "optc":
			data, ci, o, err = rd.ng.ReadPacketDataWithOptions()
		case "optz":
			data, ci, o, err = rd.ng.ZeroCopyReadPacketDataWithOptions()
		}
	}
	return
}

func (rd *reader) link() int {
	switch {
	case rd.p != nil:
		return int(rd.p.LinkType())
	case rd.ng != nil:
		return int(rd.ng.LinkType())
	case rd.sn != nil:
		if lt, err := rd.sn.LinkType(); err == nil && lt != nil {
			return int(*lt)
		}
	}
	return -1
}

// obs is one packet as handed back by a read call
type obs struct {
	cap, length, dl, ifc, ns, lt int
	s                            int64
	dd, td                       string
	o                            *pcapgo.NgPacketOptions
}

func observe(data []byte, ci gopacket.CaptureInfo, o *pcapgo.NgPacketOptions) obs {
	lt := -1
	if len(ci.AncillaryData) > 0 {
		if l, ok := ci.AncillaryData[0].(layers.LinkType); ok {
			lt = int(l)
		}
	}
	p := obs{cap: ci.CaptureLength, length: ci.Length, dl: len(data), ifc: ci.InterfaceIndex, s: ci.Timestamp.Unix(),
		ns: ci.Timestamp.Nanosecond(), lt: lt, dd: dig(data), o: o}
	// tuple digest: identifies the packet as handed back (everything but the options), used for equality only
	p.td = dig(p.cap, p.length, p.dl, p.ifc, p.s, p.ns, p.lt, p.dd)
	return p
}

func (ob *obs) event(withOpts bool) vh.M {
	p := vh.M{"cap": ob.cap, "len": ob.length, "dl": ob.dl, "ifc": ob.ifc, "s": ob.s, "ns": ob.ns, "lt": ob.lt, "dd": ob.dd, "td": ob.td,
		"cm": []string{}, "fl": -1, "hs": []int{}, "dc": -1, "pid": -1, "q": -1, "vd": []int{}, "od": ""}
	o := ob.o
	if withOpts && o != nil {
		cm := []string{}
		cm = append(cm, o.Comments...)
		p["cm"] = cm
		if o.Flags != nil {
			p["fl"] = clip(uint64(o.Flags.ToUint32()))
		}
		hs := []int{}
		for _, h := range o.Hashes {
			hs = append(hs, len(h.Hash))
		}
		p["hs"] = hs
		if o.DropCount != nil {
			p["dc"] = clip(*o.DropCount)
		}
		if o.PacketID != nil {
			p["pid"] = clip(*o.PacketID)
		}
		if o.Queue != nil {
			p["q"] = clip(uint64(*o.Queue))
		}
		vd := []int{}
		for _, v := range o.Verdicts {
			vd = append(vd, len(v.Data))
		}
		p["vd"] = vd
		p["od"] = optDigest(o)
	}
	return p
}

// TLC integers are 32 bit: values that do not fit are mapped to a value no scenario uses
func clip(v uint64) int {
	if v > 0x7fffffff {
		return 0x7ffffff0
	}
	return int(v)
}

// readAll opens the reader on b and reads with call kind mode until the first error.
// retained is a packet exactly as a copying read call handed it back: the caller owns the data slice, the CaptureInfo
// (including the AncillaryData slice) and the option struct, and may keep all of them while it goes on reading.
type retained struct {
	data []byte
	ci   gopacket.CaptureInfo
	o    *pcapgo.NgPacketOptions
}

// readAll opens the reader on b (pcapng: WantMixedLinkType = mix) and reads with call kind mode until the first error.
// Zero-copy calls are observed at once (the next call invalidates them - that is their contract).  Copying calls are
// RETAINED and observed only after the reader has reached its end: whatever a later call overwrites in an earlier
// result (data bytes, AncillaryData, comments, hash and verdict payloads) shows up in the observation.
func readAll(sc *Scen, b []byte, mode string, mix bool, maxPk int) (pk []obs, end string, link int) {
	link = -1
	copying := mode == "copy" || mode == "optc"
	var kept []retained
	msg, _, p := vh.Guard(func() {
		rd, err := open(sc.Fmt, bytes.NewReader(b), pcapgo.NgReaderOptions{WantMixedLinkType: mix})
		if err != nil {
			end = ekind(err)
			return
		}
		link = rd.link()
		for {
			data, ci, o, err := rd.next(mode)
			if err != nil {
				end = ekind(err) // data returned together with an error is not a packet
				return
			}
			if len(pk)+len(kept) > maxPk {
				end = "none"
				return
			}
			var op *pcapgo.NgPacketOptions
			if mode == "optc" || mode == "optz" {
				oc := o
				op = &oc
			}
			if copying {
				kept = append(kept, retained{data, ci, op})
			} else {
				pk = append(pk, observe(data, ci, op))
			}
		}
	})
	for i := range kept {
		pk = append(pk, observe(kept[i].data, kept[i].ci, kept[i].o))
	}
	if p {
		_ = msg
		end = "panic"
	}
	return
}

func metaEvent(sc *Scen, b []byte, sci int) vh.M {
	ev := vh.M{"op": "meta", "sc": sci, "shb": []string{}, "ifs": []vh.M{}}
	vh.Guard(func() {
		rd, err := pcapgo.NewNgReader(bytes.NewReader(b), pcapgo.NgReaderOptions{WantMixedLinkType: true})
		if err != nil {
			return
		}
		si := rd.SectionInfo()
		ev["shb"] = []string{si.Application, si.Comment, si.Hardware, si.OS}
		for {
			if _, _, err := rd.ReadPacketData(); err != nil {
				break
			}
		}
		ifs := []vh.M{}
		for i := 0; i < rd.NInterfaces(); i++ {
			f, _ := rd.Interface(i)
			ifs = append(ifs, vh.M{"link": int(f.LinkType), "snap": int(f.SnapLength), "name": f.Name, "cmt": f.Comment, "descr": f.Description,
				"filter": f.Filter, "os": f.OS, "tsoff": clip(f.TimestampOffset), "res": int(f.TimestampResolution)})
		}
		ev["ifs"] = ifs
	})
	return ev
}

func sameObs(ak int, aend string, atds []string, bk int, bend string, btds []string) bool {
	if ak != bk || aend != bend || len(atds) != len(btds) {
		return false
	}
	for i := range atds {
		if atds[i] != btds[i] {
			return false
		}
	}
	return true
}

// collector of the events of one scenario (scenarios run concurrently, their events stay contiguous)
type evlist struct{ evs []vh.M }

func (l *evlist) Emit(ev vh.M) { l.evs = append(l.evs, ev) }

func runRT(tr *evlist, sci int, sc *Scen, tmp string) {
	defer progress.Add(1)
	sc.normalize()
	tr.Emit(vh.M{"op": "scn", "sc": sci, "scen": sc})
	var bl built
	if msg, _, p := vh.Guard(func() { bl = build(sc, sci) }); p || bl.err != nil {
		if bl.err != nil {
			msg = bl.err.Error()
		}
		tr.Emit(vh.M{"op": "werr", "sc": sci, "msg": msg})
		return
	}
	f := bl.file
	tr.Emit(vh.M{"op": "file", "sc": sci, "size": len(f), "walk": walk(sc.Fmt, f), "wofs": bl.wofs, "wdd": bl.wdd, "wod": bl.wod})
	np := len(bl.wdd)
	modes := []string{"copy", "zero"}
	if sc.Fmt == "ng" {
		modes = []string{"copy", "zero", "optc", "optz"}
	}
	// pcapng files are read with WantMixedLinkType off and on (off: packets of interfaces whose link type differs from
	// the first interface's are skipped, as libpcap does; on: the link type travels in ci.AncillaryData[0])
	mixes := []bool{false}
	if sc.Fmt == "ng" {
		mixes = []bool{false, true}
	}
	for _, mix := range mixes {
		for _, m := range modes {
			pk, end, link := readAll(sc, f, m, mix, np+4)
			evs := []vh.M{}
			for i := range pk {
				evs = append(evs, pk[i].event(m == "optc" || m == "optz"))
			}
			tr.Emit(vh.M{"op": "read", "sc": sci, "mode": m, "mix": mix, "pk": evs, "end": end, "link": link})
		}
	}
	if sc.Fmt == "ng" {
		tr.Emit(metaEvent(sc, f, sci))
	}
	tr.Emit(libEvent(sci, f, tmp))
	// every cut offset (0 .. size inclusive), copying and zero-copy calls; equal consecutive observations form one run
	bounds := append([]int(nil), bl.wofs...) // block boundaries from the file's own length fields
	for _, b := range walk(sc.Fmt, f) {
		bounds = append(bounds, b[1].(int), b[1].(int)+b[2].(int))
	}
	for _, m := range []string{"copy", "zero"} {
		lo := 0
		var k0 int
		var end0 string
		var tds0 []string
		flush := func(hi int) {
			tr.Emit(vh.M{"op": "cuts", "sc": sci, "mode": m, "lo": lo, "hi": hi, "k": k0, "end": end0, "tds": tds0})
		}
		for cut := 0; cut <= len(f); cut++ {
			if len(f) > 40000 && cut%1009 != 0 && !nearBoundary(cut, bounds, len(f)) {
				continue // large files: every offset around the block boundaries, a stride elsewhere
			}
			pk, end, _ := readAll(sc, f[:cut:cut], m, sc.Fmt == "ng" && sc.Mixed, np+4)
			tds := make([]string, len(pk))
			for i := range pk {
				tds[i] = pk[i].td
			}
			if cut == 0 {
				k0, end0, tds0 = len(pk), end, tds
				continue
			}
			if !sameObs(k0, end0, tds0, len(pk), end, tds) {
				flush(cut)
				lo, k0, end0, tds0 = cut, len(pk), end, tds
			}
		}
		flush(len(f) + 1)
	}
	tr.Emit(vh.M{"op": "done", "sc": sci})
}

func nearBoundary(cut int, wofs []int, size int) bool {
	if cut < 64 || size-cut < 64 {
		return true
	}
	for _, o := range wofs {
		if d := cut - o; d > -64 && d < 64 {
			return true
		}
	}
	return false
}

func loadScenarios(path string) []*Scen {
	var out []*Scen
	if path == "" {
		return out
	}
	fh, err := os.Open(path)
	if err != nil {
		vh.Fatal(err)
	}
	defer fh.Close()
	rd := bufio.NewScanner(fh)
	rd.Buffer(make([]byte, 1<<20), 1<<24)
	for rd.Scan() {
		if len(bytes.TrimSpace(rd.Bytes())) == 0 {
			continue
		}
		var w struct {
			Scen *Scen `json:"scen"`
		}
		if err := json.Unmarshal(rd.Bytes(), &w); err != nil || w.Scen == nil {
			vh.Fatal("bad scenario line:", err)
		}
		out = append(out, w.Scen)
	}
	return out
}

func randStr(r *vh.Rand, n int) string {
	b := make([]byte, n)
	for i := range b {
		b[i] = byte('a' + r.Intn(26))
	}
	return string(b)
}

// randomScenario goes beyond the bounds of PcapFileGen.tla: more and larger packets (files that exceed the
// readers' 4096-byte buffers), option strings around the 1024-byte option buffer, arbitrary timestamps.
// Every sixth one (alternating formats) is a jumbo scenario: packets around and above 64 KiB (the readers' chunked
// read path and the 16-bit boundary) between small ones; the pcapng ones carry option values of 65533..65535 octets.
func randomScenario(r *vh.Rand, i int) *Scen {
	caps := []int{0, 1, 2, 3, 4, 5, 17, 60, 1023, 1024, 1025, 1500, 3000, 4095, 4096, 4097}
	jumbo := i%6 >= 4
	if jumbo {
		caps = []int{60, 98, 1514, 65535, 65536, 65537, 65549, 70000, 131073}
	}
	strl := []int{0, 1, 3, 4, 5, 17, 255, 1023, 1024, 1025, 1500}
	ts := func() (int64, int) {
		switch r.Intn(4) {
		case 0:
			return int64(r.Intn(0x7fffffff)), 0
		case 1:
			return int64(r.Intn(0x7fffffff)), 999999999
		}
		return int64(r.Intn(0x7fffffff)), r.Intn(1000000000)
	}
	n := 1 + r.Intn(7)
	if jumbo {
		n = 3 + r.Intn(2)
	}
	pick := func(k int) int {
		if jumbo { // small, large, small, ...
			if k%2 == 1 {
				return caps[3+r.Intn(len(caps)-3)]
			}
			return caps[r.Intn(3)]
		}
		return caps[r.Intn(len(caps))]
	}
	if (!jumbo && r.Intn(2) == 0) || (jumbo && i%6 == 4) {
		sc := &Scen{Fmt: "pcap", Nano: r.Bool(), Snap: 262144, Link: []int{1, 113, 127}[r.Intn(3)]}
		for i := 0; i < n; i++ {
			c := pick(i)
			s, ns := ts()
			sc.Items = append(sc.Items, Item{T: "pkt", Cap: c, Len: c + r.Intn(3)*r.Intn(2000), S: s, Ns: ns})
		}
		return sc
	}
	str := func() string { return randStr(r, strl[r.Intn(len(strl))]) }
	idb := func(link int) Item {
		snap := []int{0, 65535, 262144}[r.Intn(3)]
		if jumbo && snap == 65535 {
			snap = 0
		}
		return Item{T: "idb", Link: link, Snap: snap, Name: str(), Cmt: str(), Descr: str(), Filter: str(), Os: str()}
	}
	sc := &Scen{Fmt: "ng", Mixed: r.Intn(3) == 0, Shb: Shb{App: str(), Cmt: str(), Hw: str(), Os: str()}}
	sc.Items = append(sc.Items, idb(1))
	if jumbo {
		sc.Items[0].Descr = randStr(r, 65535-2*r.Intn(2))
	}
	nif := 1
	for i := 0; i < n; i++ {
		if nif < 3 && r.Intn(4) == 0 {
			l := 1
			if sc.Mixed {
				l = []int{1, 113}[r.Intn(2)]
			}
			sc.Items = append(sc.Items, idb(l))
			nif++
		}
		c := pick(i)
		s, ns := ts()
		it := Item{T: "pkt", Ifc: r.Intn(nif), Cap: c, Len: c + r.Intn(3)*r.Intn(2000), S: s, Ns: ns, Fl: -1, Dc: -1, Pid: -1, Q: -1}
		for k := r.Intn(3); k > 0; k-- {
			it.Cm = append(it.Cm, str())
		}
		if jumbo && i < 3 {
			// option values at the 16-bit length boundary: 65533..65535 octets need 3..1 octets of padding, and the
			// padded length no longer fits the length field's type
			it.Cm = append(it.Cm, randStr(r, 65533+i))
		}
		if r.Intn(3) == 0 {
			it.Fl = r.Intn(4) | r.Intn(8)<<2 | r.Intn(16)<<5 | r.Intn(0x7fff)<<16
		}
		for k := r.Intn(3); k > 0; k-- {
			it.Hs = append(it.Hs, []int{0, 4, 16, 20, 1023, 1024}[r.Intn(6)])
		}
		if r.Intn(3) == 0 {
			it.Dc = r.Intn(0x7fffffef)
		}
		if r.Intn(3) == 0 {
			it.Pid = r.Intn(0x7fffffef)
		}
		if r.Intn(3) == 0 {
			it.Q = r.Intn(0x7fffffef)
		}
		for k := r.Intn(2); k > 0; k-- {
			it.Vd = append(it.Vd, []int{0, 8, 9}[r.Intn(3)])
		}
		sc.Items = append(sc.Items, it)
	}
	return sc
}

func mainRT(scenPath, tracePath string, nrand int, seed uint64, workers int) {
	tr := vh.NewTrace(tracePath)
	go watchdog(tr)
	tmp := filepath.Join(filepath.Dir(tracePath), "libpcap-tmp")
	os.MkdirAll(tmp, 0o755)
	scs := loadScenarios(scenPath)
	r := vh.NewRand(seed)
	for i := 0; i < nrand; i++ {
		scs = append(scs, randomScenario(r, i))
	}
	if workers < 1 {
		workers = 1
	}
	progress.Store(1)
	batch := workers * 16
	for lo := 0; lo < len(scs); lo += batch {
		hi := lo + batch
		if hi > len(scs) {
			hi = len(scs)
		}
		res := make([]evlist, hi-lo)
		var wg sync.WaitGroup
		next := int64(lo)
		for w := 0; w < workers; w++ {
			wg.Add(1)
			go func() {
				defer wg.Done()
				for {
					i := int(atomic.AddInt64(&next, 1)) - 1
					if i >= hi {
						return
					}
					runRT(&res[i-lo], i+1, scs[i], tmp)
				}
			}()
		}
		wg.Wait()
		for i := range res {
			tr.EmitBlock(res[i].evs)
		}
	}
	os.RemoveAll(tmp)
	tr.Close()
	out, _ := json.Marshal(vh.M{"scenarios": len(scs), "events": tr.N, "libpcap": libAvailable})
	os.Stdout.Write(append(out, '\n'))
}
