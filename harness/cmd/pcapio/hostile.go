package main

func mainHostile(in, out string, nrand int, seed uint64, workers, nchk, ninj int) {}
func mainChild(in, out string, nrand int, seed uint64, from, to, nchk, ninj int)  {}
