package main

// Hostile input (C15).  The parent (-mode hostile) splits the case list over child processes (-mode child); each
// child runs under an address-space cap, writes a marker before every stream it reads and the events of a case
// only when the case is complete, so that a process abort (out of memory, fatal runtime error) is attributed to
// exactly one case and reported as a "crash" event.  A child that has seen a large allocation exits ("recycle")
// so that the next cases start from a fresh heap.
//
// For every case and every reader configuration the stream is read to the end through the shapes whole, one byte
// per Read, chunked Reads, injected I/O errors, and gzip-wrapped (pcap / pcapng).  Shapes with the identical
// observation are reported as one group (run-length encoding only); NgReader.tla decides.

import (
	"bufio"
	"bytes"
	"compress/gzip"
	"encoding/binary"
	"encoding/hex"
	"encoding/json"
	"errors"
	"fmt"
	"io"
	"os"
	"os/exec"
	"regexp"
	"runtime"
	"runtime/debug"
	"runtime/metrics"
	"runtime/pprof"
	"strconv"
	"strings"
	"sync"
	"sync/atomic"
	"syscall"
	"time"

	"github.com/gopacket/gopacket"
	"github.com/gopacket/gopacket/pcapgo"
	"verif/harness/vh"
)

type baseT struct {
	ID     int             `json:"id"`
	Scen   *Scen           `json:"scen"`
	Size   int             `json:"size"`
	Fields [][]interface{} `json:"fields"` // [name, off, width]
	file   []byte
}

type caseT struct {
	Base  int    `json:"base"`
	Loc   string `json:"loc"`
	Cls   string `json:"cls"`
	Off   int    `json:"off"`
	Bytes []int  `json:"bytes"`
	Src   string `json:"src"`
	file  []byte
}

type plan struct {
	bases  map[int]*baseT
	order  []int
	cases  []caseT
	chunks [][]int
	ntlc   int // cases enumerated by TLC (the rest of cases are the cooperating-field combinations)
}

func loadPlan(path string) *plan {
	p := &plan{bases: map[int]*baseT{}}
	fh, err := os.Open(path)
	if err != nil {
		vh.Fatal(err)
	}
	defer fh.Close()
	rd := bufio.NewScanner(fh)
	rd.Buffer(make([]byte, 1<<20), 1<<24)
	for rd.Scan() {
		line := rd.Text()
		switch {
		case strings.HasPrefix(line, "BASE "):
			b := &baseT{}
			if err := json.Unmarshal([]byte(line[5:]), b); err != nil {
				vh.Fatal("bad BASE line:", err)
			}
			b.Scen.normalize()
			bl := build(b.Scen, 0)
			if bl.err != nil {
				vh.Fatal("cannot build base", b.ID, bl.err)
			}
			b.file = bl.file
			p.bases[b.ID] = b
			p.order = append(p.order, b.ID)
		case strings.HasPrefix(line, "CASE "):
			var c caseT
			if err := json.Unmarshal([]byte(line[5:]), &c); err != nil {
				vh.Fatal("bad CASE line:", err)
			}
			c.Src = "tlc"
			p.cases = append(p.cases, c)
		case strings.HasPrefix(line, "CHK "):
			var c struct {
				Sizes []int `json:"sizes"`
			}
			if err := json.Unmarshal([]byte(line[4:]), &c); err != nil {
				vh.Fatal("bad CHK line:", err)
			}
			p.chunks = append(p.chunks, c.Sizes)
		}
	}
	p.ntlc = len(p.cases)
	p.overclaims()
	return p
}

// overclaims adds the cases in which several length fields agree with each other but not with the file: one record
// claims capture length = original length = V far beyond the bytes present, under every declaration of the snap
// length (unchanged, 0, 1, 0xffffffff).  A reader that bounds its allocation by "caplen <= snaplen" or by
// "caplen <= len" alone is only exposed when the fields cooperate.
func (p *plan) overclaims() {
	pairs := map[string]string{"rec.caplen": "rec.len", "epb.caplen": "epb.len", "srec.incllen": "srec.origlen"}
	for _, id := range p.order {
		b := p.bases[id]
		var snaps, caps, lens [][]interface{}
		for _, fd := range b.Fields {
			n := fd[0].(string)
			switch {
			case n == "pcap.snaplen" || n == "idb.snaplen":
				snaps = append(snaps, fd)
			case pairs[n] != "":
				caps = append(caps, fd)
			case n == "rec.len" || n == "epb.len" || n == "srec.origlen":
				lens = append(lens, fd)
			}
		}
		put := func(f []byte, fd []interface{}, v uint32) {
			off, w := int(fd[1].(float64)), int(fd[2].(float64))
			for k := 0; k < w && off+k < len(f); k++ {
				sh := uint(8 * k)
				if b.Scen.Fmt == "snoop" {
					sh = uint(8 * (w - 1 - k))
				}
				f[off+k] = byte(v >> sh)
			}
		}
		for ri := range caps {
			if ri >= len(lens) {
				break
			}
			for _, snap := range []int64{-1, 0, 1, 0xffffffff} {
				if snap >= 0 && len(snaps) == 0 {
					continue
				}
				for _, v := range []uint32{65536, 0x01000000, 0x7fffffff, 0xffffffff} {
					f := append([]byte(nil), b.file...)
					loc := caps[ri][0].(string) + "+" + lens[ri][0].(string)
					cls := fmt.Sprintf("claim=%x", v)
					if snap >= 0 {
						for _, sf := range snaps {
							put(f, sf, uint32(snap))
						}
						loc = snaps[0][0].(string) + "+" + loc
						cls = fmt.Sprintf("snap=%x,", snap) + cls
					}
					put(f, caps[ri], v)
					put(f, lens[ri], v)
					p.cases = append(p.cases, caseT{Base: id, Loc: loc, Cls: fmt.Sprintf("%s,rec=%d", cls, ri), Off: int(caps[ri][1].(float64)), Src: "combo", file: f})
				}
			}
		}
	}
}

// fieldAt names the field of the layout map that contains offset off ("data" when none does)
func (b *baseT) fieldAt(off int) string {
	for _, f := range b.Fields {
		o, w := int(f[1].(float64)), int(f[2].(float64))
		if off >= o && off < o+w {
			return f[0].(string)
		}
	}
	return "data"
}

// declaredSnapKB: the largest snap length the file declares, read at the snaplen fields of the layout map
// (classic files may be of either byte order)
func (b *baseT) declaredSnapKB(f []byte) int {
	m := uint32(0)
	for _, fd := range b.Fields {
		n := fd[0].(string)
		off := int(fd[1].(float64))
		if (n != "idb.snaplen" && n != "pcap.snaplen") || off+4 > len(f) {
			continue
		}
		v := binary.LittleEndian.Uint32(f[off:])
		if n == "pcap.snaplen" {
			if w := binary.BigEndian.Uint32(f[off:]); w > v {
				v = w
			}
		}
		if v > m {
			m = v
		}
	}
	return kb(uint64(m))
}

// randomCase derives case number j (beyond the TLC cases) from the seed alone, so that every child agrees on it.
func (p *plan) randomCase(seed uint64, j int) caseT {
	r := vh.NewRand(seed*1000003 + uint64(j)*7919 + 11)
	b := p.bases[p.order[r.Intn(len(p.order))]]
	f := append([]byte(nil), b.file...)
	c := caseT{Base: b.ID, Src: "rand", Cls: "random"}
	interesting := []uint32{0, 1, 2, 3, 4, 5, 7, 8, 11, 12, 15, 16, 20, 24, 27, 28, 31, 32, 255, 256, 1023, 1024, 1025, 4095, 4096, 4097, 65535, 65536,
		0x7fffffff, 0x80000000, 0xfffffff0, 0xfffffffc, 0xffffffff}
	var locs []string
	put := func(off, w int, v uint32) {
		for k := 0; k < w && off+k < len(f); k++ {
			sh := uint(8 * k)
			if b.Scen.Fmt == "snoop" {
				sh = uint(8 * (w - 1 - k))
			}
			f[off+k] = byte(v >> sh)
		}
	}
	nm := 1 + r.Intn(3)
	for m := 0; m < nm; m++ {
		switch r.Intn(6) {
		case 0, 1, 2: // a field of the layout map gets a boundary or random value
			fd := b.Fields[r.Intn(len(b.Fields))]
			off, w := int(fd[1].(float64)), int(fd[2].(float64))
			v := interesting[r.Intn(len(interesting))]
			if r.Intn(4) == 0 {
				v = uint32(r.U64())
				if r.Intn(2) == 0 {
					v &= 0xffff // random but modest: most of the 32-bit space is covered by the boundary values
				}
			}
			put(off, w, v)
			locs = append(locs, fd[0].(string))
		case 3: // one byte anywhere
			off := r.Intn(len(f))
			f[off] = []byte{0, 0xff, f[off] + 1, f[off] - 1, byte(r.U64())}[r.Intn(5)]
			locs = append(locs, b.fieldAt(off))
		case 4: // truncation
			cut := r.Intn(len(f) + 1)
			f = f[:cut]
			locs = append(locs, "cut")
			if len(f) == 0 {
				f = []byte{}
			}
		case 5: // a run of random bytes
			if len(f) > 0 {
				off := r.Intn(len(f))
				n := 1 + r.Intn(12)
				for k := 0; k < n && off+k < len(f); k++ {
					f[off+k] = byte(r.U64())
				}
				locs = append(locs, b.fieldAt(off)+"~")
			}
		}
		if len(f) == 0 {
			break
		}
	}
	c.Loc = strings.Join(locs, "+")
	c.file = f
	return c
}

func (p *plan) caseAt(i int, seed uint64) caseT {
	if i < len(p.cases) {
		c := p.cases[i]
		if c.file != nil { // precomputed (several fields changed together)
			return c
		}
		b := p.bases[c.Base]
		f := append([]byte(nil), b.file...)
		for k, v := range c.Bytes {
			if c.Off+k < len(f) {
				f[c.Off+k] = byte(v)
			}
		}
		c.file = f
		return c
	}
	return p.randomCase(seed, i-len(p.cases))
}

// ---------------------------------------------------------------------------------------------------------------
// stream shapes

var errInjected = errors.New("injected I/O error")

type shaped struct {
	b     []byte
	pos   int
	sizes []int // nil: unlimited
	k     int
	inj   int // -1: none; otherwise fail once pos reaches inj
	fired bool
}

func (s *shaped) Read(p []byte) (int, error) {
	if s.inj >= 0 && s.pos >= s.inj {
		s.fired = true
		return 0, errInjected
	}
	if s.pos >= len(s.b) {
		return 0, io.EOF
	}
	n := len(p)
	if s.sizes != nil {
		if m := s.sizes[s.k%len(s.sizes)]; m < n {
			n = m
		}
		s.k++
	}
	if rem := len(s.b) - s.pos; rem < n {
		n = rem
	}
	if s.inj >= 0 && s.pos+n > s.inj {
		n = s.inj - s.pos
	}
	copy(p, s.b[s.pos:s.pos+n])
	s.pos += n
	return n, nil
}

type shapeT struct {
	kind  string // whole one chk inj gz gzone
	sizes []int
	inj   int
}

// ---------------------------------------------------------------------------------------------------------------
// one run = one stream read to its end with one reader configuration

type callT struct {
	cap, length, dl uint64
	dg              string
}

type obsT struct {
	calls  []callT
	end    string
	fired  bool
	makb   int
	runkb  int
	site   string
	snapkb int
}

func (o *obsT) key() string {
	var sb strings.Builder
	for _, c := range o.calls {
		fmt.Fprintf(&sb, "%d,%d,%d,%s;", c.cap, c.length, c.dl, c.dg)
	}
	fmt.Fprintf(&sb, "|%s|%v|%s", o.end, o.fired, o.site)
	return sb.String()
}

var memA, memB runtime.MemStats

// runAllocKB: MemStats.TotalAlloc delta around f (stops the world twice: used once per run)
func runAllocKB(f func()) int {
	runtime.ReadMemStats(&memA)
	f()
	runtime.ReadMemStats(&memB)
	return int((memB.TotalAlloc - memA.TotalAlloc + 1023) / 1024)
}

// allocKB: the same cumulative counter (/gc/heap/allocs:bytes is MemStats.TotalAlloc) read through runtime/metrics,
// which does not stop the world: cheap enough for every single reader call.  Allocations served from a span the
// goroutine already holds are accounted when the span is exchanged, i.e. the per-call figure may lag by less than a
// span (< 64 KiB); everything larger is accounted immediately.
var allocSample = []metrics.Sample{{Name: "/gc/heap/allocs:bytes"}}

func heapAllocs() uint64 {
	metrics.Read(allocSample)
	return allocSample[0].Value.Uint64()
}

func allocKB(f func()) int {
	a := heapAllocs()
	f()
	b := heapAllocs()
	return int((b - a + 1023) / 1024)
}

var marker *os.File
var recycle bool

var lastMark [4]interface{}

func mark(ci int, rd string, sh string, snapkb int) {
	if marker != nil {
		cur := [4]interface{}{ci, rd, sh, snapkb}
		if cur == lastMark {
			return
		}
		lastMark = cur
		s := fmt.Sprintf("%d %s %s %d", ci, rd, sh, snapkb)
		marker.WriteAt([]byte(fmt.Sprintf("%-120s\n", s)), 0)
	}
}

func kb(n uint64) int { return int((n + 1023) / 1024) }

func (rd *reader) snapKB() int {
	switch {
	case rd.p != nil:
		return kb(uint64(rd.p.Snaplen()))
	case rd.ng != nil:
		m := uint32(0)
		for i := 0; i < rd.ng.NInterfaces(); i++ {
			if f, err := rd.ng.Interface(i); err == nil && f.SnapLength > m {
				m = f.SnapLength
			}
		}
		return kb(uint64(m))
	}
	return 0
}

const maxCalls = 64

func errClass(err error) string {
	if errors.Is(err, errInjected) || strings.Contains(err.Error(), errInjected.Error()) {
		return "inj"
	}
	return ekind(err)
}

// runStream reads the stream src with reader configuration rdm ("copy", "zero", optionally "+mixed").
// Every call is measured through runtime/metrics; with runTotal the whole run is also measured by MemStats.TotalAlloc.
func runStream(ci int, format, rdm, shName string, src io.Reader, perCall bool) (o obsT) { // perCall = runTotal
	zero := strings.HasPrefix(rdm, "zero")
	opt := pcapgo.NgReaderOptions{}
	if strings.HasSuffix(rdm, "+mixed") {
		opt = pcapgo.NgReaderOptions{WantMixedLinkType: true, SkipUnknownVersion: true,
			SectionEndCallback: func([]pcapgo.NgInterface, pcapgo.NgSectionInfo) {}, StatisticsCallback: func(int, pcapgo.NgInterfaceStatistics) {}}
	}
	mode := "copy"
	if zero {
		mode = "zero"
	}
	body := func() {
		var rd reader
		var err error
		mark(ci, rdm, shName, 0)
		step := func(f func()) (panicked bool) {
			var msg, site string
			g := func() { msg, site, panicked = vh.Guard(f) }
			if a := allocKB(g); a > o.makb {
				o.makb = a
			}
			if panicked {
				o.end = "panic"
				o.site = vh.SiteSig(os.Getenv("VERIF_REPO"), site) + " :: " + digitsRe.ReplaceAllString(trim(msg, 80), "N")
			}
			return
		}
		if step(func() { rd, err = open(format, src, opt) }) {
			return
		}
		if err != nil {
			o.end = errClass(err)
			return
		}
		for n := 0; n < maxCalls; n++ {
			var data []byte
			var ci2 gopacket.CaptureInfo
			o.snapkb = rd.snapKB()
			mark(ci, rdm, shName, o.snapkb)
			if step(func() { data, ci2, _, err = rd.next(mode) }) {
				return
			}
			if err != nil {
				o.end = errClass(err)
				o.snapkb = rd.snapKB()
				return
			}
			o.calls = append(o.calls, callT{cap: uint64(ci2.CaptureLength), length: uint64(ci2.Length), dl: uint64(len(data)),
				dg: dig(data, ci2.Timestamp.Unix(), ci2.Timestamp.Nanosecond(), ci2.InterfaceIndex)})
		}
		o.end = "none"
	}
	run := body
	if perCall {
		run = func() { o.runkb = runAllocKB(body) }
	}
	// the run executes on this goroutine; childWatchdog aborts the process (exit 5) when it does not finish, and the
	// parent attributes the hang to the case named by the marker
	runStart.Store(time.Now().UnixNano())
	run()
	runStart.Store(0)
	if o.makb > 32*1024 {
		recycle = true
	}
	return
}

// random corruptions carry the corrupted file itself (TLC cases are reproducible from base, offset and bytes)
func caseHex(c *caseT) string {
	if c.Src != "tlc" {
		return hex.EncodeToString(c.file)
	}
	return ""
}

var digitsRe = regexp.MustCompile(`\d+`)

func trim(s string, n int) string {
	if len(s) > n {
		return s[:n]
	}
	return s
}

var gzw *gzip.Writer
var gzMu sync.Mutex // the parent attributes aborts on several goroutines

func gz(b []byte) []byte {
	gzMu.Lock()
	defer gzMu.Unlock()
	var buf bytes.Buffer
	if gzw == nil {
		gzw = gzip.NewWriter(&buf)
	} else {
		gzw.Reset(&buf)
	}
	gzw.Write(b)
	gzw.Close()
	return buf.Bytes()
}

func half(v uint64) (int, int) {
	if v > 0xffffffffffff {
		v = 0xffffffffffff
	}
	return int(v >> 16), int(v & 0xffff)
}

// runCase produces the events of one case.  Returns false when the child should stop after it (recycle).
func runCase(ci int, c *caseT, p *plan, seed uint64, nchk, ninj int) []vh.M {
	format := p.bases[c.Base].Scen.Fmt
	f := c.file
	var gzf []byte
	if format != "snoop" {
		gzf = gz(f)
	}
	evs := []vh.M{{"op": "case", "cs": ci, "fmt": format, "base": c.Base, "loc": c.Loc, "cls": c.Cls, "src": c.Src,
		"present": len(f) + len(gzf), "size": len(f), "hex": caseHex(c)}}
	modes := []string{"copy", "zero"}
	if format == "ng" {
		modes = []string{"copy", "zero", "copy+mixed", "zero+mixed"}
	}
	r := vh.NewRand(seed + uint64(ci)*31)
	// shapes: whole, one, nchk chunkings chosen by the seed, injected errors around the corrupted field and spread
	// over the file, gzip-wrapped
	var shapes []shapeT
	shapes = append(shapes, shapeT{kind: "whole", inj: -1}, shapeT{kind: "one", sizes: []int{1}, inj: -1})
	for k := 0; k < nchk && len(p.chunks) > 0; k++ {
		shapes = append(shapes, shapeT{kind: "chk", sizes: p.chunks[r.Intn(len(p.chunks))], inj: -1})
	}
	var pos []int
	if ninj == 0 {
		for q := 0; q <= len(f); q++ {
			pos = append(pos, q)
		}
	} else {
		cand := []int{0, 1, c.Off - 1, c.Off, c.Off + len(c.Bytes), len(f) - 1, len(f)}
		for k := 0; k < ninj; k++ {
			cand = append(cand, r.Intn(len(f)+1))
		}
		seen := map[int]bool{}
		for _, q := range cand {
			if q >= 0 && q <= len(f) && !seen[q] && len(pos) < ninj+4 {
				seen[q] = true
				pos = append(pos, q)
			}
		}
	}
	for _, q := range pos {
		sh := shapeT{kind: "inj", inj: q}
		if q%2 == 1 {
			sh.sizes = []int{3, 1}
		}
		shapes = append(shapes, sh)
	}
	if gzf != nil && (ci%2 == 0 || c.Loc == "none") {
		shapes = append(shapes, shapeT{kind: "gz", inj: -1}, shapeT{kind: "gzone", sizes: []int{1}, inj: -1})
	}
	for _, m := range modes {
		type grp struct {
			o      obsT
			shapes map[string]int
			order  []string
		}
		var groups []*grp
		idx := map[string]*grp{}
		snapkb := p.bases[c.Base].declaredSnapKB(f)
		for si, sh := range shapes {
			data := f
			if sh.kind == "gz" || sh.kind == "gzone" {
				data = gzf
			}
			src := &shaped{b: data, sizes: sh.sizes, inj: sh.inj}
			var rdr io.Reader = src
			if sh.kind == "whole" || sh.kind == "gz" {
				rdr = bytes.NewReader(data)
			}
			o := runStream(ci, format, m, sh.kind, rdr, sh.kind == "whole" || sh.kind == "gz")
			o.fired = src.fired
			if o.snapkb > snapkb {
				snapkb = o.snapkb
			}
			k := o.key()
			g := idx[k]
			if g == nil {
				g = &grp{o: o, shapes: map[string]int{}}
				idx[k] = g
				groups = append(groups, g)
			}
			if o.makb > g.o.makb {
				g.o.makb = o.makb
			}
			if o.runkb > g.o.runkb {
				g.o.runkb = o.runkb
			}
			if g.shapes[sh.kind] == 0 {
				g.order = append(g.order, sh.kind)
			}
			g.shapes[sh.kind]++
			if si == 0 && (recycle || o.end == "panic" || o.end == "hang") {
				break // a large allocation, panic or hang on the plain stream: the other shapes add nothing
			}
			if o.end == "hang" {
				break
			}
		}
		var gl []vh.M
		for _, g := range groups {
			var shl []vh.M
			for _, k := range g.order {
				shl = append(shl, vh.M{"k": k, "n": g.shapes[k]})
			}
			calls := [][]interface{}{}
			for _, cl := range g.o.calls {
				ch, cl0 := half(cl.cap)
				lh, ll := half(cl.length)
				dh, dl := half(cl.dl)
				calls = append(calls, []interface{}{ch, cl0, lh, ll, dh, dl, cl.dg})
			}
			gl = append(gl, vh.M{"shapes": shl, "calls": calls, "end": g.o.end, "fired": g.o.fired, "makb": g.o.makb, "runkb": g.o.runkb, "site": g.o.site})
		}
		evs = append(evs, vh.M{"op": "mode", "cs": ci, "rd": m, "snapkb": snapkb, "groups": gl})
		if recycle {
			break
		}
		hang := false
		for _, g := range groups {
			if g.o.end == "hang" {
				hang = true
			}
		}
		if hang {
			recycle = true // the stuck goroutine keeps its reader: continue in a fresh process
			break
		}
	}
	return evs
}

// ---------------------------------------------------------------------------------------------------------------
// child and parent

// Address-space cap of a child.  A child of this binary has a virtual size of ~1.55 GiB (measured: VmPeak 1,607,548 kB
// with 23 MB resident - reservations of the Go runtime), so 3 GiB leaves ~1.4 GiB of head room: the runtime's own
// reservations never reach the cap (children are replaced after any allocation > 32 MiB, the heap does not accumulate),
// while a single allocation of more than ~1.4 GiB is refused inside mallocgc at once, without touching memory, with
// "runtime: out of memory: cannot allocate N-byte block": N is the size the reader asked for, and NgReader.tla judges it
// like a measured allocation.  A larger cap is NOT safer: a 4 GiB make that succeeds is zeroed by the runtime whenever
// its span overlaps a used arena, which commits 4 GiB per child and took > 60 s under load (false hangs, and 18
// children x 4 GiB exceed the RAM of the machine).
const asCapMiB = 3072

var runStart atomic.Int64

// a stream of a few hundred bytes is read in microseconds; zeroing an allocation just below the cap on a loaded machine
// has been seen to take ~15 s
const hangAfter = 150 * time.Second

func childWatchdog() {
	for {
		time.Sleep(500 * time.Millisecond)
		if t := runStart.Load(); t != 0 && time.Now().UnixNano()-t > int64(hangAfter) {
			fmt.Fprintln(os.Stderr, "HANG: reader call did not return within", hangAfter)
			pprof.Lookup("goroutine").WriteTo(os.Stderr, 2) // where it is stuck
			os.Exit(5)
		}
	}
}

func mainChild(in, out string, nrand int, seed uint64, from, to, nchk, ninj int) {
	lim := syscall.Rlimit{Cur: asCapMiB << 20, Max: asCapMiB << 20}
	syscall.Setrlimit(syscall.RLIMIT_AS, &lim)
	runtime.GOMAXPROCS(2)
	p := loadPlan(in)
	var err error
	if marker, err = os.OpenFile(out+".marker", os.O_CREATE|os.O_RDWR|os.O_TRUNC, 0o644); err != nil {
		vh.Fatal(err)
	}
	tf, err := os.Create(out)
	if err != nil {
		vh.Fatal(err)
	}
	mark(0, "start", "-", 0) // case 0 = not yet in any case
	go childWatchdog()
	for i := from; i < to; i++ {
		c := p.caseAt(i, seed)
		evs := runCase(i+1, &c, p, seed, nchk, ninj)
		// the events of a case reach the file in one write, only when the case is complete
		var blk bytes.Buffer
		for _, ev := range evs {
			b, err := json.Marshal(ev)
			if err != nil {
				vh.Fatal("trace marshal:", err)
			}
			blk.Write(bytes.ReplaceAll(b, []byte(":null"), []byte(":[]")))
			blk.WriteByte('\n')
		}
		tf.Write(blk.Bytes())
		if recycle && i+1 < to {
			tf.Close()
			fmt.Printf("{\"next\":%d}\n", i+1)
			os.Exit(4)
		}
	}
	tf.Close()
	fmt.Printf("{\"next\":%d}\n", to)
}

// fatal ends the parent with its reason on stderr AND as the last line of stdout (never a silent exit)
var fatalOnce sync.Once

func fatal(reason string) {
	fatalOnce.Do(func() {
		fmt.Fprintln(os.Stderr, "pcapio hostile: FATAL:", reason)
		o, _ := json.Marshal(vh.M{"fatal": reason})
		os.Stdout.Write(append(o, '\n'))
		os.Exit(2)
	})
	select {} // another goroutine is already exiting
}

var envRe = regexp.MustCompile(`(?i)failed to create new OS thread|cannot allocate memory|cannot map pages|failed to reserve|errno=12|resource temporarily unavailable`)
var oomRe = regexp.MustCompile(`cannot allocate (\d+)-byte block`)

func mainHostile(in, out string, nrand int, seed uint64, workers, nchk, ninj int) {
	p := loadPlan(in)
	total := len(p.cases) + nrand
	self, err := os.Executable()
	if err != nil {
		fatal("cannot locate own executable: " + err.Error())
	}
	if workers < 1 {
		workers = 1
	}
	per := (total + workers - 1) / workers
	type part struct{ files []string }
	parts := make([]part, workers)
	crashes := make([][]vh.M, workers)
	var wg sync.WaitGroup
	stats := struct {
		sync.Mutex
		restarts, crashes, recycles int
	}{}
	for w := 0; w < workers; w++ {
		wg.Add(1)
		go func(w int) {
			defer wg.Done()
			from, to := w*per, (w+1)*per
			if to > total {
				to = total
			}
			defer func() {
				if r := recover(); r != nil {
					fatal(fmt.Sprintf("worker %d of the parent panicked: %v\n%s", w, r, debug.Stack()))
				}
			}()
			seg := 0
			startFail := 0
			killed := map[int]int{}
			for from < to {
				seg++
				tp := fmt.Sprintf("%s.w%d.%d", out, w, seg)
				cmd := exec.Command(self, "-mode", "child", "-scenarios", in, "-trace", tp, "-seed", strconv.FormatUint(seed, 10),
					"-from", strconv.Itoa(from), "-to", strconv.Itoa(to), "-chunkings", strconv.Itoa(nchk), "-inject", strconv.Itoa(ninj), "-rand", strconv.Itoa(nrand))
				var stderr, stdout bytes.Buffer
				cmd.Stderr = &stderr
				cmd.Stdout = &stdout
				err := cmd.Run()
				parts[w].files = append(parts[w].files, tp)
				code := 0
				if err != nil {
					code = -1
					if ee, ok := err.(*exec.ExitError); ok {
						code = ee.ExitCode()
					}
				}
				var nx struct {
					Next int `json:"next"`
				}
				if (code == 0 || code == 4) && json.Unmarshal(bytes.TrimSpace(stdout.Bytes()), &nx) == nil && nx.Next > from {
					if code == 4 {
						stats.Lock()
						stats.recycles++
						stats.Unlock()
					}
					from = nx.Next
					startFail = 0
					continue
				}
				// abnormal end.  The marker names the case in progress; no marker, the start marker or a case before
				// `from` mean that the child died outside any case (exec failure, start-up under load, kill): retry.
				mk, _ := os.ReadFile(tp + ".marker")
				fs := strings.Fields(string(mk))
				ci := 0
				if len(fs) >= 4 {
					ci, _ = strconv.Atoi(fs[0])
				}
				msg := stderr.String()
				signalled := false
				if ee, ok := err.(*exec.ExitError); ok {
					if ws, ok := ee.Sys().(syscall.WaitStatus); ok && ws.Signaled() {
						signalled = true
					}
				}
				if ci-1 < from || ci > to {
					startFail++
					stats.Lock()
					stats.restarts++
					stats.Unlock()
					if startFail > 6 {
						fatal(fmt.Sprintf("worker %d: child for cases [%d,%d) failed %d times outside any case: exit code %d, error %v, marker %q, stderr: %s",
							w, from, to, startFail, code, err, strings.TrimSpace(string(mk)), trim(msg, 1500)))
					}
					time.Sleep(time.Duration(200*startFail) * time.Millisecond)
					continue
				}
				startFail = 0
				// killed by a signal (e.g. the kernel's OOM killer while the machine is overloaded), or the runtime could not
				// get a thread / map memory for itself (not an allocation of a given size requested by a reader): not
				// necessarily the fault of the case - run it once more before attributing the abort to it
				if (signalled || (code == 2 && !oomRe.MatchString(msg) && envRe.MatchString(msg))) && killed[ci] < 1 {
					killed[ci]++
					stats.Lock()
					stats.restarts++
					stats.Unlock()
					from = ci - 1
					continue
				}
				snapkb, _ := strconv.Atoi(fs[3])
				c := p.caseAt(ci-1, seed)
				if d := p.bases[c.Base].declaredSnapKB(c.file); d > snapkb {
					snapkb = d
				}
				oom := false
				reqkb := 0
				if m := oomRe.FindStringSubmatch(msg); m != nil {
					oom = true
					n, _ := strconv.ParseUint(m[1], 10, 64)
					reqkb = kb(n)
				}
				first := msg
				if i := strings.Index(first, "\n\n"); i > 0 {
					first = first[:i]
				}
				site := vh.SiteSig(os.Getenv("VERIF_REPO"), vh.SiteFromStack(msg))
				format := p.bases[c.Base].Scen.Fmt
				gzl := 0
				if format != "snoop" {
					gzl = len(gz(c.file))
				}
				caseEv := vh.M{"op": "case", "cs": ci, "fmt": format, "base": c.Base, "loc": c.Loc, "cls": c.Cls, "src": c.Src,
					"present": len(c.file) + gzl, "size": len(c.file), "hex": caseHex(&c)}
				if code == 5 && strings.Contains(msg, "HANG:") {
					crashes[w] = append(crashes[w], caseEv, vh.M{"op": "hang", "cs": ci, "rd": fs[1], "shape": fs[2], "site": site,
						"stack": trim(msg, 3000)})
				} else {
					crashes[w] = append(crashes[w], caseEv,
						vh.M{"op": "crash", "cs": ci, "rd": fs[1], "shape": fs[2], "snapkb": snapkb, "oom": oom, "reqkb": reqkb, "code": code,
							"signal": signalled, "msg": trim(strings.ReplaceAll(first, "\n", " / "), 300), "site": site})
				}
				stats.Lock()
				stats.crashes++
				stats.Unlock()
				from = ci // cases are numbered from 1: continue with the case after the aborted one
			}
		}(w)
	}
	wg.Wait()
	// merge: the parts in order, then the crash events (each a complete case of its own)
	tr := vh.NewTrace(out)
	for w := range parts {
		for _, fp := range parts[w].files {
			fh, err := os.Open(fp)
			if err != nil {
				continue
			}
			sc := bufio.NewScanner(fh)
			sc.Buffer(make([]byte, 1<<20), 1<<26)
			for sc.Scan() {
				var ev vh.M
				if json.Unmarshal(sc.Bytes(), &ev) == nil {
					tr.Emit(ev)
				}
			}
			fh.Close()
			os.Remove(fp)
			os.Remove(fp + ".marker")
		}
		tr.EmitBlock(crashes[w])
	}
	tr.Close()
	o, _ := json.Marshal(vh.M{"cases": total, "tlc_cases": p.ntlc, "combo_cases": len(p.cases) - p.ntlc, "events": tr.N, "crashes": stats.crashes, "recycles": stats.recycles, "restarts": stats.restarts, "chunkings": len(p.chunks)})
	os.Stdout.Write(append(o, '\n'))
}
