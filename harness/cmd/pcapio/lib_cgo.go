//go:build libpcap

package main

// libpcap clause of C14: the written file is opened with libpcap through /repo/pcap (cgo).

import (
	"fmt"
	"io"
	"os"
	"path/filepath"

	"github.com/gopacket/gopacket/pcap"
	"verif/harness/vh"
)

const libAvailable = true

func libEvent(sci int, f []byte, tmp string) vh.M {
	ev := vh.M{"op": "lib", "sc": sci, "status": "err", "pk": []vh.M{}, "link": -1, "msg": ""}
	path := filepath.Join(tmp, fmt.Sprintf("f%d.cap", sci))
	if err := os.WriteFile(path, f, 0o644); err != nil {
		vh.Fatal("cannot write temporary capture file:", err)
	}
	defer os.Remove(path)
	msg, _, p := vh.Guard(func() {
		h, err := pcap.OpenOffline(path)
		if err != nil {
			ev["msg"] = err.Error()
			return
		}
		defer h.Close()
		ev["link"] = int(h.LinkType())
		pk := []vh.M{}
		for {
			data, ci, err := h.ReadPacketData()
			if err == io.EOF {
				ev["status"] = "ok"
				break
			}
			if err != nil {
				ev["msg"] = err.Error()
				break
			}
			pk = append(pk, vh.M{"cap": ci.CaptureLength, "len": ci.Length, "dl": len(data), "s": ci.Timestamp.Unix(),
				"ns": ci.Timestamp.Nanosecond(), "dd": dig(data)})
			if len(pk) > 64 {
				ev["msg"] = "libpcap does not stop"
				break
			}
		}
		ev["pk"] = pk
	})
	if p {
		ev["msg"] = "panic: " + msg
	}
	return ev
}
