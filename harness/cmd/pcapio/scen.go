package main

// Scenario representation shared with specs/PcapFile.tla and the construction of the real file:
// pcap and pcapng files are produced by the real writers (pcapgo.Writer / pcapgo.NgWriter); blocks for
// which pcapgo has no writer (snoop files, name resolution and simple packet blocks) are laid out by the
// harness exactly as PcapFile.tla describes them.

import (
	"bytes"
	"encoding/binary"
	"fmt"
	"hash/fnv"
	"time"

	"github.com/gopacket/gopacket"
	"github.com/gopacket/gopacket/layers"
	"github.com/gopacket/gopacket/pcapgo"
)

type Rec struct {
	Rt int `json:"rt"` // record type
	Al int `json:"al"` // address length
	Nl int `json:"nl"` // name length including the NUL
}

type Item struct {
	T      string   `json:"t"`
	Link   int      `json:"link"`
	Snap   int      `json:"snap"`
	Name   string   `json:"name"`
	Cmt    string   `json:"cmt"`
	Descr  string   `json:"descr"`
	Filter string   `json:"filter"`
	Os     string   `json:"os"`
	Tsoff  int      `json:"tsoff"`
	Ifc    int      `json:"ifc"`
	Cap    int      `json:"cap"`
	Len    int      `json:"len"`
	S      int64    `json:"s"`
	Ns     int      `json:"ns"`
	Cm     []string `json:"cm"`
	Fl     int      `json:"fl"`
	Hs     []int    `json:"hs"`
	Dc     int      `json:"dc"`
	Pid    int      `json:"pid"`
	Q      int      `json:"q"`
	Vd     []int    `json:"vd"`
	N      int      `json:"n"`
	Pad    int      `json:"pad"`
	St     int      `json:"st"`
	En     int      `json:"en"`
	Dr     int      `json:"dr"`
	Rc     int      `json:"rc"`
	Recs   []Rec    `json:"recs"`
}

type Shb struct {
	App string `json:"app"`
	Cmt string `json:"cmt"`
	Hw  string `json:"hw"`
	Os  string `json:"os"`
}

type Scen struct {
	Fmt   string `json:"fmt"`
	Nano  bool   `json:"nano"`
	Snap  int    `json:"snap"`
	Link  int    `json:"link"`
	Mixed bool   `json:"mixed"`
	Shb   Shb    `json:"shb"`
	Items []Item `json:"items"`
}

func (sc *Scen) normalize() {
	for i := range sc.Items {
		it := &sc.Items[i]
		if it.Cm == nil {
			it.Cm = []string{}
		}
		if it.Hs == nil {
			it.Hs = []int{}
		}
		if it.Vd == nil {
			it.Vd = []int{}
		}
		if it.Recs == nil {
			it.Recs = []Rec{}
		}
	}
}

func dig(parts ...interface{}) string {
	h := fnv.New64a()
	var x [9]byte
	for _, p := range parts {
		switch v := p.(type) {
		case []byte:
			x[0] = 'b'
			binary.LittleEndian.PutUint64(x[1:], uint64(len(v)))
			h.Write(x[:])
			h.Write(v)
		case int:
			x[0] = 'i'
			binary.LittleEndian.PutUint64(x[1:], uint64(v))
			h.Write(x[:])
		case int64:
			x[0] = 'i'
			binary.LittleEndian.PutUint64(x[1:], uint64(v))
			h.Write(x[:])
		case string:
			x[0] = 's'
			binary.LittleEndian.PutUint64(x[1:], uint64(len(v)))
			h.Write(x[:])
			h.Write([]byte(v))
		default:
			fmt.Fprintf(h, "%v|", v)
		}
	}
	const hx = "0123456789abcdef"
	v := h.Sum64()
	var o [12]byte
	for i := range o {
		o[i] = hx[v&15]
		v >>= 4
	}
	return string(o[:])
}

func pktData(sci, pi, n int) []byte {
	b := make([]byte, n)
	for j := range b {
		b[j] = byte(17*(pi+1) + 31*j + 3 + 7*sci)
	}
	return b
}

func optBytes(tag, idx, n int) []byte {
	b := make([]byte, n)
	for j := range b {
		b[j] = byte(0x40 + 13*tag + 5*idx + j)
	}
	return b
}

// packet options of the scenario as the writer's structure
func ngOpts(it *Item) pcapgo.NgPacketOptions {
	var o pcapgo.NgPacketOptions
	for _, c := range it.Cm {
		o.Comments = append(o.Comments, c)
	}
	if it.Fl >= 0 {
		f := pcapgo.NgEpbFlags{}
		f.FromUint32(uint32(it.Fl))
		o.Flags = &f
	}
	for i, n := range it.Hs {
		o.Hashes = append(o.Hashes, pcapgo.NgEpbHash{Algorithm: pcapgo.NgEpbHashAlgorithm(i + 2), Hash: optBytes(1, i, n)})
	}
	if it.Dc >= 0 {
		v := uint64(it.Dc)
		o.DropCount = &v
	}
	if it.Pid >= 0 {
		v := uint64(it.Pid)
		o.PacketID = &v
	}
	if it.Q >= 0 {
		v := uint32(it.Q)
		o.Queue = &v
	}
	for i, n := range it.Vd {
		o.Verdicts = append(o.Verdicts, pcapgo.NgEpbVerdict{Type: pcapgo.NgEpbVerdictType(i + 1), Data: optBytes(2, i, n)})
	}
	return o
}

// digest of the contents of the binary options (hash and verdict payloads with their type octets)
func optDigest(o *pcapgo.NgPacketOptions) string {
	var parts []interface{}
	for _, h := range o.Hashes {
		parts = append(parts, int(h.Algorithm), h.Hash)
	}
	parts = append(parts, "v")
	for _, v := range o.Verdicts {
		parts = append(parts, int(v.Type), v.Data)
	}
	return dig(parts...)
}

type built struct {
	file []byte
	wofs []int    // file length after each (flushed) writer call
	wdd  []string // digest of the data of each packet handed to the writer
	wod  []string // digest of the binary option contents of each packet
	err  error
}

func ngIface(it *Item) pcapgo.NgInterface {
	return pcapgo.NgInterface{Name: it.Name, Comment: it.Cmt, Description: it.Descr, Filter: it.Filter, OS: it.Os,
		LinkType: layers.LinkType(it.Link), SnapLength: uint32(it.Snap), TimestampOffset: uint64(it.Tsoff), TimestampResolution: 9}
}

func be32(b *bytes.Buffer, v uint32) { var x [4]byte; binary.BigEndian.PutUint32(x[:], v); b.Write(x[:]) }
func le32(b *bytes.Buffer, v uint32) { var x [4]byte; binary.LittleEndian.PutUint32(x[:], v); b.Write(x[:]) }
func le16(b *bytes.Buffer, v uint16) { var x [2]byte; binary.LittleEndian.PutUint16(x[:], v); b.Write(x[:]) }
func pad4(n int) int                 { return (n + 3) / 4 * 4 }

// build writes the scenario with the real writers.  sci only varies the packet contents.
func build(sc *Scen, sci int) (res built) {
	var buf bytes.Buffer
	pi := 0
	mark := func() { res.wofs = append(res.wofs, buf.Len()) }
	switch sc.Fmt {
	case "pcap":
		var w *pcapgo.Writer
		if sc.Nano {
			w = pcapgo.NewWriterNanos(&buf)
		} else {
			w = pcapgo.NewWriter(&buf)
		}
		if res.err = w.WriteFileHeader(uint32(sc.Snap), layers.LinkType(sc.Link)); res.err != nil {
			return
		}
		mark()
		for i := range sc.Items {
			it := &sc.Items[i]
			d := pktData(sci, pi, it.Cap)
			pi++
			res.wdd = append(res.wdd, dig(d))
			res.wod = append(res.wod, "")
			ci := gopacket.CaptureInfo{Timestamp: time.Unix(it.S, int64(it.Ns)), CaptureLength: it.Cap, Length: it.Len}
			if res.err = w.WritePacket(ci, d); res.err != nil {
				return
			}
			mark()
		}
	case "ng":
		if len(sc.Items) == 0 || sc.Items[0].T != "idb" {
			res.err = fmt.Errorf("pcapng scenario must start with an interface")
			return
		}
		w, err := pcapgo.NewNgWriterInterface(&buf, ngIface(&sc.Items[0]),
			pcapgo.NgWriterOptions{SectionInfo: pcapgo.NgSectionInfo{Application: sc.Shb.App, Comment: sc.Shb.Cmt, Hardware: sc.Shb.Hw, OS: sc.Shb.Os}})
		if err != nil {
			res.err = err
			return
		}
		w.Flush()
		mark()
		for i := 1; i < len(sc.Items); i++ {
			it := &sc.Items[i]
			switch it.T {
			case "idb":
				_, res.err = w.AddInterface(ngIface(it))
			case "pkt":
				d := pktData(sci, pi, it.Cap)
				pi++
				o := ngOpts(it)
				res.wdd = append(res.wdd, dig(d))
				res.wod = append(res.wod, optDigest(&o))
				ci := gopacket.CaptureInfo{Timestamp: time.Unix(it.S, int64(it.Ns)), CaptureLength: it.Cap, Length: it.Len, InterfaceIndex: it.Ifc}
				res.err = w.WritePacketWithOptions(ci, d, o)
			case "isb":
				st := pcapgo.NgInterfaceStatistics{LastUpdate: time.Unix(1700000000, 5), PacketsDropped: pcapgo.NgNoValue64, PacketsReceived: pcapgo.NgNoValue64}
				if it.St >= 0 {
					st.StartTime = time.Unix(int64(it.St), 1)
				}
				if it.En >= 0 {
					st.EndTime = time.Unix(int64(it.En), 2)
				}
				if it.Dr >= 0 {
					st.PacketsDropped = uint64(it.Dr)
				}
				if it.Rc >= 0 {
					st.PacketsReceived = uint64(it.Rc)
				}
				res.err = w.WriteInterfaceStats(it.Ifc, st)
			case "dsb":
				res.err = w.WriteDecryptionSecretsBlock(pcapgo.DSB_SECRETS_TYPE_TLS, optBytes(3, i, it.N))
			case "nrb":
				// no writer in pcapgo: block type 4, records <<type, length, address, names>> padded to 32 bits, end record
				w.Flush()
				var b bytes.Buffer
				for ri, r := range it.Recs {
					le16(&b, uint16(r.Rt))
					le16(&b, uint16(r.Al+r.Nl))
					b.Write(optBytes(4, ri, r.Al))
					for k := 0; k < r.Nl-1; k++ {
						b.WriteByte(byte('a' + k%26))
					}
					if r.Nl > 0 {
						b.WriteByte(0)
					}
					b.Write(make([]byte, pad4(r.Al+r.Nl)-(r.Al+r.Nl)))
				}
				le32(&b, 0) // nrb_record_end
				le32(&buf, 4)
				le32(&buf, uint32(12+b.Len()))
				buf.Write(b.Bytes())
				le32(&buf, uint32(12+b.Len()))
			case "spb":
				w.Flush()
				d := pktData(sci, pi, it.Cap)
				pi++
				res.wdd = append(res.wdd, dig(d))
				res.wod = append(res.wod, "")
				tot := uint32(16 + pad4(it.Cap))
				le32(&buf, 3)
				le32(&buf, tot)
				le32(&buf, uint32(it.Cap))
				buf.Write(d)
				buf.Write(make([]byte, pad4(it.Cap)-it.Cap))
				le32(&buf, tot)
			default:
				res.err = fmt.Errorf("unknown item %q", it.T)
			}
			if res.err != nil {
				return
			}
			w.Flush()
			mark()
		}
	case "snoop":
		// RFC 1761: 8-byte magic, version 2, datalink type; records of 24 header bytes + data + pad, big endian
		buf.Write([]byte{0x73, 0x6e, 0x6f, 0x6f, 0x70, 0, 0, 0})
		be32(&buf, 2)
		be32(&buf, uint32(sc.Link))
		mark()
		for i := range sc.Items {
			it := &sc.Items[i]
			d := pktData(sci, pi, it.Cap)
			pi++
			res.wdd = append(res.wdd, dig(d))
			res.wod = append(res.wod, "")
			be32(&buf, uint32(it.Len))
			be32(&buf, uint32(it.Cap))
			be32(&buf, uint32(24+it.Cap+it.Pad))
			be32(&buf, 0)
			be32(&buf, uint32(it.S))
			be32(&buf, uint32(it.Ns/1000))
			buf.Write(d)
			buf.Write(make([]byte, it.Pad))
			mark()
		}
	default:
		res.err = fmt.Errorf("unknown format %q", sc.Fmt)
		return
	}
	res.file = append([]byte(nil), buf.Bytes()...)
	if res.wdd == nil {
		res.wdd = []string{}
	}
	if res.wod == nil {
		res.wod = []string{}
	}
	return
}

// walk observes the block structure of a written file from its own length fields:
// [kind, offset, length, trailing copy of the length (pcapng) or the length itself].
func walk(format string, f []byte) [][]interface{} {
	out := [][]interface{}{}
	switch format {
	case "pcap":
		if len(f) < 24 {
			return out
		}
		out = append(out, []interface{}{"head", 0, 24, 24})
		for off := 24; off+16 <= len(f); {
			n := 16 + int(binary.LittleEndian.Uint32(f[off+8:]))
			out = append(out, []interface{}{"pkt", off, n, n})
			off += n
		}
	case "snoop":
		if len(f) < 16 {
			return out
		}
		out = append(out, []interface{}{"head", 0, 16, 16})
		for off := 16; off+24 <= len(f); {
			n := int(binary.BigEndian.Uint32(f[off+8:]))
			out = append(out, []interface{}{"pkt", off, n, n})
			if n < 24 {
				break
			}
			off += n
		}
	case "ng":
		for off := 0; off+12 <= len(f); {
			typ := binary.LittleEndian.Uint32(f[off:])
			n := int(binary.LittleEndian.Uint32(f[off+4:]))
			k := fmt.Sprintf("type%d", typ)
			switch typ {
			case 0x0A0D0D0A:
				k = "head"
			case 1:
				k = "idb"
			case 6:
				k = "pkt"
			case 3:
				k = "spb"
			case 4:
				k = "nrb"
			case 5:
				k = "isb"
			case 10:
				k = "dsb"
			}
			tl := -1
			if n >= 12 && off+n <= len(f) {
				tl = int(binary.LittleEndian.Uint32(f[off+n-4:]))
			}
			out = append(out, []interface{}{k, off, n, tl})
			if n < 12 {
				break
			}
			off += n
		}
	}
	return out
}
