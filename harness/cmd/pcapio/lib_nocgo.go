//go:build !libpcap

package main

import "verif/harness/vh"

const libAvailable = false

func libEvent(sci int, f []byte, tmp string) vh.M {
	return vh.M{"op": "lib", "sc": sci, "status": "skip", "pk": []vh.M{}, "link": -1, "msg": "built without libpcap"}
}
