// pcapio drives the real capture-file writers and readers of pcapgo.
//
//	-mode rt       C14: write every scenario (exported by TLC from PcapFileGen.tla, or random beyond its bound),
//	               observe the bytes, read back, hand to libpcap, re-read from every proper prefix
//	-mode hostile  C15: apply the corruptions enumerated by TLC from NgReaderGen.tla (and seeded random ones) to the
//	               really written files and read them through several stream shapes in child processes
//	-mode child    worker of -mode hostile
//
// Every observation is one ndjson event; TLC validates the trace against PcapFile.tla / NgReader.tla.
package main

import (
	"flag"
	"fmt"
	"os"
	"runtime/debug"
	"runtime/pprof"
	"time"

	"verif/harness/vh"
)

// watchdog: a scenario is a handful of tiny files; no progress for 60 s is a hang of the library
func watchdog(tr *vh.Trace) {
	last, stuck := int64(-1), 0
	for {
		time.Sleep(1 * time.Second)
		cur := progress.Load()
		if cur == last {
			stuck++
		} else {
			last, stuck = cur, 0
		}
		if stuck >= 60 && cur > 0 {
			tr.Emit(vh.M{"op": "hang", "sc": int(cur)})
			tr.Close()
			fmt.Printf("{\"scenarios\":%d,\"events\":%d,\"hang\":true}\n", cur, tr.N)
			os.Exit(3)
		}
	}
}

func main() {
	mode := flag.String("mode", "rt", "rt | hostile | child")
	in := flag.String("scenarios", "", "ndjson exported by TLC (BEH lines for rt; BASE/CASE/CHK lines for hostile)")
	out := flag.String("trace", "trace.ndjson", "trace output")
	nrand := flag.Int("rand", 0, "random scenarios / corruptions beyond the TLC bound")
	seed := flag.Uint64("seed", 1, "seed")
	workers := flag.Int("workers", 4, "rt: concurrent scenarios; hostile: child processes")
	from := flag.Int("from", 0, "child: first case index")
	to := flag.Int("to", 0, "child: one past the last case index")
	nchk := flag.Int("chunkings", 3, "hostile: chunkings per case")
	ninj := flag.Int("inject", 5, "hostile: injected error positions per case (0 = every position)")
	prof := flag.String("cpuprofile", "", "write a CPU profile")
	flag.Parse()
	if *prof != "" {
		f, _ := os.Create(*prof)
		pprof.StartCPUProfile(f)
		defer pprof.StopCPUProfile()
	}
	// the readers allocate a snap-length buffer per opened file; with the default pacing the collector would run every
	// few files and rescan the large global tables of gopacket/layers each time
	if os.Getenv("GOGC") == "" {
		debug.SetGCPercent(400)
	}
	switch *mode {
	case "rt":
		mainRT(*in, *out, *nrand, *seed, *workers)
	case "hostile":
		mainHostile(*in, *out, *nrand, *seed, *workers, *nchk, *ninj)
	case "child":
		mainChild(*in, *out, *nrand, *seed, *from, *to, *nchk, *ninj)
	default:
		vh.Fatal("unknown mode", *mode)
	}
}
