// defrag_impl: model -> implementation binding for specs/DefragImpl.tla (the transcription of
// ip4defrag/defrag.go).  Behaviours exported by TLC from DefragImplMC carry configuration (header
// length, how the second datagram's key differs), operations (byte positions, as in the model) and
// the events the model predicts.  The real ip4defrag.IPv4Defragmenter is run with the same
// configuration and operations; what it did is written as a trace in the format of cmd/defrag
// (validated by TLC against Defrag.tla through DefragTrace.tla - the only source of verdicts) and
// compared with the prediction (drift: reported, never a verdict).  X13IMPL / C13.
package main

import (
	"bufio"
	"encoding/json"
	"flag"
	"fmt"
	"os"
	"runtime"
	"strings"
	"sync"
	"sync/atomic"
	"time"

	"github.com/gopacket/gopacket/ip4defrag"
	"github.com/gopacket/gopacket/layers"
	"verif/harness/implcmp"
	"verif/harness/vh"
)

type mcfg struct {
	Ihl int `json:"ihl"`
	Kd  int `json:"kd"`
}

type behaviour struct {
	Cfg  mcfg            `json:"cfg"`
	Ops  [][]interface{} `json:"ops"`
	Pred [][]vh.M        `json:"pred"`
	Tail [][]interface{} `json:"tail,omitempty"` // operations appended after the predicted ones (run and judged, not compared)
}

type op struct {
	kind   string
	key    int
	lo, hi int // bytes
	mf     bool
	t      int
}

func parseOps(raw [][]interface{}) ([]op, error) {
	var ops []op
	for _, r := range raw {
		if len(r) == 0 {
			return nil, fmt.Errorf("empty operation")
		}
		switch r[0] {
		case "frag":
			if len(r) != 5 {
				return nil, fmt.Errorf("frag needs 4 arguments")
			}
			ops = append(ops, op{kind: "frag", key: implcmp.Num(r[1]), lo: implcmp.Num(r[2]), hi: implcmp.Num(r[3]), mf: r[4] == true})
		case "discard":
			ops = append(ops, op{kind: "discard", t: implcmp.Num(r[1])})
		default:
			return nil, fmt.Errorf("unknown operation %v", r[0])
		}
	}
	return ops, nil
}

// Content and its decoding are those of cmd/defrag (package main there, hence repeated): every 8-byte group of a
// fragment's payload encodes (key, fragment index, absolute group index), so that the origin of every returned byte
// can be read back from the datagram.
func fill(key, fi, lo, n int) []byte {
	b := make([]byte, n)
	for i := 0; i < n; i++ {
		g := (lo + i) / 8
		switch (lo + i) % 8 {
		case 0:
			b[i] = 0xF0 | byte(key&0xf)
		case 1:
			b[i] = byte(fi)
		case 2:
			b[i] = byte(g >> 8)
		case 3:
			b[i] = byte(g)
		case 4:
			b[i] = ^byte(fi)
		case 5:
			b[i] = ^byte(g)
		case 6:
			b[i] = 0x5a
		case 7:
			b[i] = 0xa5
		}
	}
	return b
}

type run struct {
	Fi  int `json:"fi"`
	Lo  int `json:"lo"`
	Hi  int `json:"hi"`
	Pos int `json:"pos"`
}

type sentFrag struct{ key, fi, lo, hi int }

func decode(p []byte, sent []sentFrag) []run {
	runs := []run{}
	for pos := 0; pos < len(p); pos += 8 {
		n := 8
		if pos+n > len(p) {
			n = len(p) - pos
		}
		g := p[pos : pos+n]
		fi, off := -1, -1
		if n >= 4 && g[0]&0xF0 == 0xF0 {
			gi := int(g[2])<<8 | int(g[3])
			ok := true
			if n >= 5 && g[4] != ^g[1] {
				ok = false
			}
			if n >= 6 && g[5] != ^g[3] {
				ok = false
			}
			if n >= 7 && g[6] != 0x5a {
				ok = false
			}
			if n >= 8 && g[7] != 0xa5 {
				ok = false
			}
			if ok {
				fi, off = int(g[1]), gi*8
			}
		}
		if k := len(runs); k > 0 && fi >= 0 && runs[k-1].Fi == fi && runs[k-1].Hi == off && runs[k-1].Pos+(runs[k-1].Hi-runs[k-1].Lo) == pos {
			runs[k-1].Hi += n
			continue
		}
		if fi < 0 && n < 4 && n >= 1 && g[0]&0xF0 == 0xF0 {
			key := int(g[0] & 0x0f)
			for _, sf := range sent {
				if sf.key&0xf == key && sf.lo <= pos && pos+n <= sf.hi && (n < 2 || sf.fi&0xff == int(g[1])) {
					fi, off = sf.fi, pos
					break
				}
			}
			if k := len(runs); k > 0 && fi >= 0 && runs[k-1].Fi == fi && runs[k-1].Hi == off && runs[k-1].Pos+(runs[k-1].Hi-runs[k-1].Lo) == pos {
				runs[k-1].Hi += n
				continue
			}
		}
		if fi < 0 {
			runs = append(runs, run{Fi: -1, Lo: pos, Hi: pos + n, Pos: pos})
		} else {
			runs = append(runs, run{Fi: fi, Lo: off, Hi: off + n, Pos: pos})
		}
	}
	return runs
}

func ts(i int) time.Time { return time.Unix(int64(1000+i), 0) }

// the error of the code as one of the model's decision names (comparison only)
func errKind(msg string) string {
	switch {
	case strings.Contains(msg, "fragment too small"):
		return "too-small"
	case strings.Contains(msg, "fragment offset too big"):
		return "offset-too-big"
	case strings.Contains(msg, "fragment will overrun"):
		return "overrun"
	case strings.Contains(msg, "invalid fragment"):
		return "invalid-fragment"
	case strings.Contains(msg, "hole found"):
		return "hole"
	case strings.Contains(msg, "hits its maximum"):
		return "list-full"
	case strings.Contains(msg, "slice bounds out of range"):
		return "slice-bounds-payload"
	}
	if len(msg) > 60 {
		msg = msg[:60]
	}
	return "other:" + msg
}

// key -> (id, src, dst): as cmd/defrag does per scenario number, here per configuration (DefragImpl!KeyOf)
func addr(kd, key int) (uint16, []byte, []byte) {
	id, src, dst := uint16(100+key), []byte{10, 0, 0, byte(key)}, []byte{10, 0, 0, 99}
	switch kd {
	case 1:
		src = []byte{10, 0, 0, 1}
	case 2:
		id = 101
	case 3:
		id = 101
		if key != 1 {
			src, dst = []byte{10, 0, 0, 99}, []byte{10, 0, 0, byte(key - 1)}
		}
	}
	return id, src, dst
}

type harness struct {
	sc   int
	cfg  mcfg
	d    *ip4defrag.IPv4Defragmenter
	sent []sentFrag
	all  []vh.M
}

func (h *harness) step(i int, o op) vh.M {
	t := i + 1
	ihl := h.cfg.Ihl
	switch o.kind {
	case "frag":
		fi := t
		n := o.hi - o.lo
		payload := fill(o.key, fi, o.lo, n)
		h.sent = append(h.sent, sentFrag{o.key, fi, o.lo, o.lo + n})
		id, src, dst := addr(h.cfg.Kd, o.key)
		in := &layers.IPv4{Version: 4, IHL: uint8(ihl), TOS: 3, Length: uint16(ihl*4 + n), Id: id, TTL: 61,
			Protocol: layers.IPProtocolUDP, SrcIP: src, DstIP: dst, FragOffset: uint16(o.lo / 8)}
		if ihl == 6 {
			in.Options = []layers.IPv4Option{{OptionType: 1, OptionLength: 1}, {OptionType: 1, OptionLength: 1}, {OptionType: 1, OptionLength: 1}, {OptionType: 0, OptionLength: 1}}
		}
		if o.mf {
			in.Flags = layers.IPv4MoreFragments
		}
		in.Payload = payload
		ev := vh.M{"op": "frag", "sc": h.sc, "key": o.key, "fi": fi, "lo": o.lo, "hi": o.lo + n, "mf": o.mf, "ts": t,
			"runs": []run{}, "plen": 0, "length": 0, "flags": 0, "fragoff": 0, "ihl": ihl, "why": "",
			"sane": !(o.mf && n < 8) && o.lo/8 <= 8183 && o.lo+ihl*4+n <= 65535}
		var out *layers.IPv4
		var err error
		msg, site, p := vh.Guard(func() { out, err = h.d.DefragIPv4WithTimestamp(in, ts(t)) })
		switch {
		case p:
			ev["res"] = "panic"
			ev["why"] = errKind(msg)
			if len(msg) > 100 {
				msg = msg[:100]
			}
			ev["msg"] = msg
			ev["site"] = site
		case err != nil:
			ev["res"] = "err"
			ev["why"] = errKind(err.Error())
		case out == nil:
			ev["res"] = "nil"
		case out == in:
			ev["res"] = "same"
		default:
			ev["res"] = "dgram"
			ev["runs"] = decode(out.Payload, h.sent)
			ev["plen"] = len(out.Payload)
			ev["length"] = int(out.Length)
			ev["flags"] = int(out.Flags)
			ev["fragoff"] = int(out.FragOffset)
			ev["ihl"] = int(out.IHL)
		}
		return ev
	case "discard":
		var n int
		msg, site, p := vh.Guard(func() { n = h.d.DiscardOlderThan(ts(o.t)) })
		if p {
			return vh.M{"op": "panic", "sc": h.sc, "msg": msg, "site": site}
		}
		return vh.M{"op": "discard", "sc": h.sc, "t": o.t, "n": n}
	}
	return vh.M{"op": "?"}
}

func runsText(v interface{}) string {
	var parts []string
	switch rs := v.(type) {
	case []run:
		for _, r := range rs {
			parts = append(parts, fmt.Sprintf("%d:%d-%d@%d", r.Fi, r.Lo, r.Hi, r.Pos))
		}
	case []interface{}:
		for _, x := range rs {
			r, _ := x.(map[string]interface{})
			parts = append(parts, fmt.Sprintf("%d:%d-%d@%d", implcmp.Num(r["fi"]), implcmp.Num(r["lo"]), implcmp.Num(r["hi"]), implcmp.Num(r["pos"])))
		}
	}
	return strings.Join(parts, ",")
}

// canon renders an event (predicted or observed: both are in bytes) for the comparison, which is pure equality
func canon(e vh.M) string {
	switch e["op"] {
	case "frag":
		return fmt.Sprintf("frag key=%d fi=%d lo=%d hi=%d mf=%v ts=%d res=%v why=%v runs=[%s] plen=%d length=%d flags=%d fragoff=%d ihl=%d sane=%v",
			implcmp.Num(e["key"]), implcmp.Num(e["fi"]), implcmp.Num(e["lo"]), implcmp.Num(e["hi"]), e["mf"], implcmp.Num(e["ts"]), e["res"], e["why"],
			runsText(e["runs"]), implcmp.Num(e["plen"]), implcmp.Num(e["length"]), implcmp.Num(e["flags"]), implcmp.Num(e["fragoff"]), implcmp.Num(e["ihl"]), e["sane"])
	case "discard":
		return fmt.Sprintf("discard t=%d n=%d", implcmp.Num(e["t"]), implcmp.Num(e["n"]))
	case "panic":
		return "panic"
	}
	return fmt.Sprintf("?%v", e["op"])
}

func compare(pred []vh.M, obs vh.M) (ps, os_ []string, kind string, same bool) {
	for _, e := range pred {
		ps = append(ps, canon(e))
	}
	os_ = []string{canon(obs)}
	if len(ps) == 1 && ps[0] == os_[0] {
		return ps, os_, "", true
	}
	kind = "length"
	if len(ps) == 1 {
		kind = fmt.Sprintf("%v", obs["op"])
		if obs["op"] == "frag" {
			kind = fmt.Sprintf("frag-%v", obs["res"])
		}
	}
	return ps, os_, kind, false
}

var progress atomic.Int64

func watchdog(tr *vh.Trace) {
	last, stuck := int64(-1), 0
	for {
		time.Sleep(1 * time.Second)
		cur := progress.Load()
		if cur == last {
			stuck++
		} else {
			last, stuck = cur, 0
		}
		if stuck >= 20 {
			tr.Emit(vh.M{"op": "hang", "sc": int(cur)})
			tr.Close()
			fmt.Printf("{\"scenarios\":%d,\"events\":%d,\"hang\":true}\n", cur, tr.N)
			os.Exit(3)
		}
	}
}

type result struct {
	events                          []vh.M
	drift                           *implcmp.Drift
	ncmp, ndgram, nerr, npanic, ndc int
	novl                            int
	errs                            map[string]int
}

func runBehaviour(sc int, line []byte) (r result) {
	var b behaviour
	if err := json.Unmarshal(line, &b); err != nil {
		vh.Fatal("bad behaviour", err)
	}
	ops, err := parseOps(b.Ops)
	if err != nil {
		vh.Fatal("bad ops", err)
	}
	npred := len(ops)
	if len(b.Tail) > 0 {
		tail, err := parseOps(b.Tail)
		if err != nil {
			vh.Fatal("bad tail", err)
		}
		ops = append(ops, tail...)
	}
	opsText, _ := json.Marshal(b.Ops)
	h := &harness{sc: sc, cfg: b.Cfg, d: ip4defrag.NewIPv4Defragmenter()}
	h.all = append(h.all, vh.M{"op": "cfg", "sc": sc, "v": 4, "ihl": b.Cfg.Ihl, "kd": b.Cfg.Kd})
	r.errs = map[string]int{}
	for i, o := range ops {
		ev := h.step(i, o)
		h.all = append(h.all, ev)
		progress.Add(1)
		switch ev["res"] {
		case "dgram":
			r.ndgram++
			if rs, ok := ev["runs"].([]run); ok && len(rs) > 0 {
				for _, x := range rs {
					for _, sf := range h.sent {
						if sf.fi == x.Fi && (x.Lo > sf.lo || x.Hi < sf.hi) {
							r.novl++ // a fragment contributed only part of its payload
						}
					}
				}
			}
		case "err":
			r.nerr++
			r.errs[fmt.Sprintf("%v", ev["why"])]++
		case "panic":
			r.npanic++
		}
		if ev["op"] == "discard" && implcmp.Num(ev["n"]) > 0 {
			r.ndc++
		}
		if b.Pred != nil && r.drift == nil && i < npred {
			var pe []vh.M
			if i < len(b.Pred) {
				pe = b.Pred[i]
			}
			ps, os_, kind, same := compare(pe, ev)
			r.ncmp++
			if !same {
				r.drift = &implcmp.Drift{Sc: sc, Cfg: b.Cfg, Ops: string(opsText), OpIndex: i, Kind: kind, Predicted: ps, Observed: os_}
			}
		}
	}
	if b.Pred != nil && r.drift == nil && len(b.Pred) > npred {
		r.drift = &implcmp.Drift{Sc: sc, Cfg: b.Cfg, Ops: string(opsText), OpIndex: len(ops), Kind: "length"}
	}
	r.events = h.all
	return r
}

func main() {
	in := flag.String("behaviours", "", "ndjson of behaviours exported by TLC from DefragImplMC")
	out := flag.String("trace", "trace.ndjson", "trace output (format of cmd/defrag)")
	driftOut := flag.String("drift", "drift.ndjson", "drift records output")
	maxDrift := flag.Int("maxdrift", 40, "drift examples kept")
	par := flag.Int("par", 0, "worker goroutines (0 = GOMAXPROCS)")
	flag.Parse()
	tr := vh.NewTrace(*out)
	progress.Store(1)
	go watchdog(tr)
	f, err := os.Open(*in)
	if err != nil {
		vh.Fatal(err)
	}
	df, err := os.Create(*driftOut)
	if err != nil {
		vh.Fatal(err)
	}
	dw := bufio.NewWriter(df)
	rd := bufio.NewScanner(f)
	rd.Buffer(make([]byte, 1<<20), 1<<26)
	sc, ndrift, ncmp, ndgram, nerr, npanic, ndc, novl := 0, 0, 0, 0, 0, 0, 0, 0
	driftKinds := map[string]int{}
	errKinds := map[string]int{}
	type job struct {
		sc   int
		line []byte
	}
	jobs := make(chan job, 256)
	var mu sync.Mutex
	var wg sync.WaitGroup
	workers := runtime.GOMAXPROCS(0)
	if *par > 0 {
		workers = *par
	}
	if workers > 8 {
		workers = 8
	}
	for w := 0; w < workers; w++ {
		wg.Add(1)
		go func() {
			defer wg.Done()
			for j := range jobs {
				r := runBehaviour(j.sc, j.line)
				tr.EmitBlock(r.events)
				progress.Add(1)
				mu.Lock()
				ncmp += r.ncmp
				ndgram += r.ndgram
				nerr += r.nerr
				npanic += r.npanic
				ndc += r.ndc
				novl += r.novl
				for k, n := range r.errs {
					errKinds[k] += n
				}
				if r.drift != nil {
					ndrift++
					driftKinds[r.drift.Kind]++
					if ndrift <= *maxDrift {
						jb, _ := json.Marshal(r.drift)
						dw.Write(jb)
						dw.WriteByte('\n')
					}
				}
				mu.Unlock()
			}
		}()
	}
	for rd.Scan() {
		line := rd.Bytes()
		if len(line) == 0 {
			continue
		}
		sc++
		jobs <- job{sc: sc, line: append([]byte(nil), line...)}
	}
	close(jobs)
	wg.Wait()
	dw.Flush()
	df.Close()
	tr.Close()
	kinds, _ := json.Marshal(driftKinds)
	ek, _ := json.Marshal(errKinds)
	fmt.Printf("{\"scenarios\":%d,\"events\":%d,\"compared_events\":%d,\"drift\":%d,\"drift_kinds\":%s,\"datagrams\":%d,\"partial_contributions\":%d,\"errors\":%d,\"error_kinds\":%s,\"discards_that_forgot\":%d,\"panics\":%d}\n",
		sc, tr.N, ncmp, ndrift, kinds, ndgram, novl, nerr, ek, ndc, npanic)
}
