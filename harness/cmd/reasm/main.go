// reasm: replays assembler scenarios (exported by TLC from ReasmGen.tla, or random beyond its bound)
// on the real gopacket/reassembly Assembler and records, in stream offsets, what the Stream was
// handed.  The trace is validated by TLC against Reasm.tla (ReasmTrace.tla).  C09, C11.
package main

import (
	"bufio"
	"flag"
	"fmt"
	"os"
	"sync/atomic"
	"time"

	"github.com/gopacket/gopacket"
	"github.com/gopacket/gopacket/layers"
	"github.com/gopacket/gopacket/reassembly"
	"verif/harness/asmc"
	"verif/harness/vh"
)

type ctx struct{ ci gopacket.CaptureInfo }

func (c *ctx) GetCaptureInfo() gopacket.CaptureInfo { return c.ci }

type harness struct {
	tr      *vh.Trace
	sc      int
	cfg     asmc.Cfg
	units   int
	content map[[2]int]*asmc.Content
	pool    *reassembly.StreamPool
	asm     *reassembly.Assembler
	// current packet context
	curForce bool
	seen     map[[2]int]bool // (c, d) has seen a packet in the live incarnation
	live     map[int]bool
	firstDir map[int]int // direction of the first packet of the current incarnation
	keepFlip bool
	pending  vh.M // seg event of the packet being assembled, emitted after a possible "new"
}

func (h *harness) flushPending() {
	if h.pending != nil {
		h.tr.Emit(h.pending)
		h.pending = nil
	}
}

type stream struct {
	h *harness
	c int
}

func (h *harness) isn(c, d int) uint32 {
	v := h.cfg.ISN + uint32(c)*0x01000193
	if d == 1 {
		v ^= 0x5a5a5a5a
	}
	if c == 1 && d == 0 {
		v = h.cfg.ISN
	}
	return v
}

func (h *harness) cont(c, d int) *asmc.Content {
	k := [2]int{c, d}
	if h.content[k] == nil {
		h.content[k] = asmc.NewContent(h.units*h.cfg.Scale, uint64(c*2+d))
	}
	return h.content[k]
}

func (h *harness) New(netFlow, tcpFlow gopacket.Flow, tcp *layers.TCP, ac reassembly.AssemblerContext) reassembly.Stream {
	c := int(tcp.SrcPort) - 1000
	d := 0
	if tcp.SrcPort == 80 {
		c = int(tcp.DstPort) - 1000
		d = 1
	}
	h.live[c] = true
	h.seen[[2]int{c, 0}], h.seen[[2]int{c, 1}] = false, false
	h.firstDir[c] = d
	h.tr.Emit(vh.M{"op": "new", "sc": h.sc, "c": c})
	h.flushPending()
	return &stream{h: h, c: c}
}

func (s *stream) Accept(tcp *layers.TCP, ci gopacket.CaptureInfo, dir reassembly.TCPFlowDirection, nextSeq reassembly.Sequence, start *bool, ac reassembly.AssemblerContext) bool {
	s.h.flushPending()
	if s.h.curForce {
		*start = true
	}
	return true
}

func (s *stream) ReassembledSG(sg reassembly.ScatterGather, ac reassembly.AssemblerContext) {
	h := s.h
	dir, start, end, skip := sg.Info()
	d := h.firstDir[s.c]
	if dir == reassembly.TCPDirServerToClient {
		d = 1 - d
	}
	total, saved := sg.Lengths()
	b := sg.Fetch(total)
	if saved > total {
		saved = total
	}
	ct := h.cont(s.c, d)
	keep := -1
	switch h.cfg.Keep {
	case 0:
		keep = 0
	case 1:
		keep = 1
	case 2:
		keep = total / 2
	case 3:
		h.keepFlip = !h.keepFlip
		if h.keepFlip {
			keep = 0
		}
	}
	if keep > total {
		keep = total
	}
	ev := vh.M{"op": "sg", "sc": h.sc, "c": s.c, "d": d, "srun": ct.Runs(b[:saved]), "nrun": ct.Runs(b[saved:]),
		"skip": skip, "start": start, "end": end, "keep": keep, "total": total}
	h.tr.Emit(ev)
	if keep >= 0 {
		sg.KeepFrom(keep)
	}
}

func (s *stream) ReassemblyComplete(ac reassembly.AssemblerContext) bool {
	s.h.tr.Emit(vh.M{"op": "complete", "sc": s.h.sc, "c": s.c, "remove": s.h.cfg.Remove})
	if s.h.cfg.Remove {
		s.h.live[s.c] = false
	}
	return s.h.cfg.Remove
}

func ts(i int) time.Time { return time.Unix(int64(1000+i), 0) }

func (h *harness) api(call string, t int, pktpages int) {
	maxq := 0
	oldest := -1
	for _, st := range h.pool.VerifHalves() {
		if st.Queued > maxq {
			maxq = st.Queued
		}
		if !st.HeadSeen.IsZero() {
			v := int(st.HeadSeen.Unix() - 1000)
			if oldest < 0 || v < oldest {
				oldest = v
			}
		}
	}
	h.tr.Emit(vh.M{"op": "api", "sc": h.sc, "call": call, "t": t, "pages": h.asm.VerifPagesUsed(),
		"conns": h.pool.VerifConnCount(), "maxq": maxq, "oldest": oldest, "pktpages": pktpages})
}

func (h *harness) run(ops []asmc.Op) {
	h.tr.Emit(vh.M{"op": "cfg", "sc": h.sc, "asm": "reassembly", "limit": h.cfg.Limit, "keep": h.cfg.Keep, "force": h.cfg.Force,
		"scale": h.cfg.Scale, "isn": int64(h.cfg.ISN), "remove": h.cfg.Remove})
	h.pool = reassembly.NewStreamPool(h)
	h.asm = reassembly.NewAssembler(h.pool)
	h.asm.MaxBufferedPagesPerConnection = h.cfg.Limit
	S := h.cfg.Scale
	for i, op := range ops {
		t := i + 1
		switch op.Kind {
		case "seg":
			ct := h.cont(op.C, op.D)
			tcp := &layers.TCP{SrcPort: layers.TCPPort(1000 + op.C), DstPort: 80, SYN: op.Syn, FIN: op.Fin, RST: op.Rst, ACK: !op.Syn}
			nf, _ := gopacket.FlowFromEndpoints(layers.NewIPEndpoint([]byte{1, 2, 3, byte(op.C)}), layers.NewIPEndpoint([]byte{5, 6, 7, 8}))
			if op.D == 1 {
				tcp.SrcPort, tcp.DstPort = tcp.DstPort, tcp.SrcPort
				nf = nf.Reverse()
			}
			tcp.SetInternalPortsForTesting()
			isn := h.isn(op.C, op.D)
			if op.Syn {
				tcp.Seq = isn
			} else {
				tcp.Seq = isn + 1 + uint32(op.Lo*S)
				tcp.Payload = ct.B[op.Lo*S : op.Hi*S]
			}
			// force a start only on the very first packet of a direction of a live incarnation (harness policy)
			force := h.cfg.Force && !op.Syn && (!h.live[op.C] || !h.seen[[2]int{op.C, op.D}])
			lo, hi := op.Lo*S, op.Hi*S
			if op.Syn {
				lo, hi = 0, 0
			}
			h.curForce = force
			h.pending = vh.M{"op": "seg", "sc": h.sc, "c": op.C, "d": op.D, "lo": lo, "hi": hi, "syn": op.Syn, "fin": op.Fin,
				"rst": op.Rst, "force": force, "ts": t}
			h.asm.AssembleWithContext(nf, tcp, &ctx{ci: gopacket.CaptureInfo{Timestamp: ts(t)}})
			h.flushPending()
			h.curForce = false
			h.seen[[2]int{op.C, op.D}] = true
			h.api("assemble", 0, (hi-lo+1899)/1900)
		case "flushall":
			h.tr.Emit(vh.M{"op": "flushb", "sc": h.sc, "kind": "all", "t": 0})
			h.asm.FlushAll()
			h.tr.Emit(vh.M{"op": "flushe", "sc": h.sc, "kind": "all", "t": 0})
			h.api("flushall", 0, 0)
		case "flusholder":
			h.tr.Emit(vh.M{"op": "flushb", "sc": h.sc, "kind": "older", "t": op.T})
			h.asm.FlushCloseOlderThan(ts(op.T))
			h.tr.Emit(vh.M{"op": "flushe", "sc": h.sc, "kind": "older", "t": op.T})
			h.api("flusholder", op.T, 0)
		}
	}
}

var progress atomic.Int64

// watchdog: a scenario of a few dozen operations that does not finish in 15 s is a hang of the library
func watchdog(tr *vh.Trace) {
	last, stuck := int64(-1), 0
	for {
		time.Sleep(1 * time.Second)
		cur := progress.Load()
		if cur == last {
			stuck++
		} else {
			last, stuck = cur, 0
		}
		if stuck >= 15 && cur > 0 {
			tr.Emit(vh.M{"op": "hang", "sc": int(cur)})
			tr.Close()
			fmt.Printf("{\"scenarios\":%d,\"events\":%d,\"hang\":true}\n", cur, tr.N)
			os.Exit(3)
		}
	}
}

func runScenario(tr *vh.Trace, sc int, ops []asmc.Op, cfg asmc.Cfg, units int) {
	progress.Store(int64(sc))
	h := &harness{tr: tr, sc: sc, cfg: cfg, units: units, content: map[[2]int]*asmc.Content{},
		seen: map[[2]int]bool{}, live: map[int]bool{}, firstDir: map[int]int{}}
	msg, site, p := vh.Guard(func() { h.run(ops) })
	if p {
		if len(msg) > 100 {
			msg = msg[:100]
		}
		tr.Emit(vh.M{"op": "panic", "sc": sc, "msg": msg, "site": site})
	}
}

func main() {
	in := flag.String("scenarios", "", "ndjson of TLC-exported behaviours")
	out := flag.String("trace", "trace.ndjson", "trace output")
	units := flag.Int("units", 3, "stream length in model units (TLC scenarios)")
	nrand := flag.Int("rand", 0, "random scenarios")
	seed := flag.Uint64("seed", 1, "seed")
	variants := flag.Int("variants", 2, "configurations per exported behaviour")
	flag.Parse()
	tr := vh.NewTrace(*out)
	go watchdog(tr)
	sc := 0
	if *in != "" {
		f, err := os.Open(*in)
		if err != nil {
			vh.Fatal(err)
		}
		rd := bufio.NewScanner(f)
		rd.Buffer(make([]byte, 1<<20), 1<<24)
		n := 0
		for rd.Scan() {
			ops, err := asmc.ParseTLC(rd.Bytes())
			if err != nil {
				vh.Fatal("bad scenario", err)
			}
			n++
			for v := 0; v < *variants; v++ {
				sc++
				runScenario(tr, sc, ops, asmc.CfgFor(n*7+v, *seed, *units), *units)
			}
		}
	}
	r := vh.NewRand(*seed)
	for i := 0; i < *nrand; i++ {
		sc++
		u := 4 + r.Intn(12)
		ops := asmc.RandomScenario(r, u, 1+r.Intn(3), 4+r.Intn(24))
		runScenario(tr, sc, ops, asmc.CfgFor(1000000+i, *seed, u), u)
	}
	tr.Close()
	fmt.Printf("{\"scenarios\":%d,\"events\":%d}\n", sc, tr.N)
}
