// cksum: drives the checksum code of gopacket (C08) and records what it does; Checksum.tla (through
// ChecksumTrace.tla, run by TLC) recomputes every expected value and decides.  Events:
//
//	fold    FoldChecksum(chi<<16|clo) = out                         (32-bit values travel as 16-bit halves)
//	sum     ComputeChecksum(bytes, ihi<<16|ilo) = ohi<<16|olo
//	ser     a packet serialized with FixLengths+ComputeChecksums: bytes from the IP header on, offset of the
//	        checksummed layer (proto "ip4": the IPv4 header itself)
//	verify  VerifyChecksum() of that layer after decoding the bytes again (unchanged, or one bit flipped)
//	pverify Packet.VerifyChecksums() on the same bytes
//
// Nothing here decides the property.  steer() only chooses inputs: it sets one payload word so that the
// checksum outcome becomes a wanted value (0x0000, which UDP sends as 0xffff, and many others).
package main

import (
	"encoding/binary"
	"encoding/json"
	"flag"
	"fmt"
	"net"
	"os"
	"sort"
	"sync/atomic"
	"time"

	"github.com/gopacket/gopacket"
	"github.com/gopacket/gopacket/layers"
	"verif/harness/vh"
)

type spec struct {
	proto string // ip4 tcp udp icmp4 icmp6 gre
	v     int
	src   net.IP
	dst   net.IP
	pay   []byte
	// ip4
	tos, ttl uint8
	id       uint16
	ipopt    bool
	ipoptLen int // option bytes before padding: 4 (aligned), 3 or 7 (the header is padded to 32 bits)
	// tcp / udp
	sport, dport uint16
	seq, ack     uint32
	win, urg     uint16
	tcpopt       int // 0 none, 1 MSS, 2 MSS+NOP+NOP+SACKperm
	// icmp
	typ, code  uint8
	icid, icsq uint16
	// gre
	greC, greK, greS bool
	greKey, greSeq   uint32
	greOff           uint16
	inner            bool // GRE carries a complete IPv4/UDP packet
	greRt            []int // source route entry lengths (RoutingPresent when non-empty); odd lengths misalign the payload
}

var serOpts = gopacket.SerializeOptions{FixLengths: true, ComputeChecksums: true}

func (s *spec) ipLayer(next layers.IPProtocol) (gopacket.SerializableLayer, gopacket.NetworkLayer) {
	if s.v == 4 {
		ip := &layers.IPv4{Version: 4, TOS: s.tos, Id: s.id, TTL: s.ttl, Protocol: next, SrcIP: s.src, DstIP: s.dst}
		if s.ipopt {
			switch s.ipoptLen {
			case 3:
				ip.Options = []layers.IPv4Option{{OptionType: 7, OptionLength: 3, OptionData: []byte{4}}}
			case 7:
				ip.Options = []layers.IPv4Option{{OptionType: 7, OptionLength: 7, OptionData: []byte{4, 10, 0, 0, 1}}}
			default:
				ip.Options = []layers.IPv4Option{{OptionType: 148, OptionLength: 4, OptionData: []byte{0, 0}}}
			}
		}
		return ip, ip
	}
	ip := &layers.IPv6{Version: 6, TrafficClass: s.tos, FlowLabel: uint32(s.id), NextHeader: next, HopLimit: s.ttl, SrcIP: s.src, DstIP: s.dst}
	return ip, ip
}

// build serializes the packet; returns the bytes and the offset of the checksummed layer.
func (s *spec) build() ([]byte, int, error) {
	ls, off, err := s.mk()
	if err != nil {
		return nil, 0, err
	}
	b, err := serialize(ls)
	return b, off, err
}

func serialize(ls []gopacket.SerializableLayer) ([]byte, error) {
	buf := gopacket.NewSerializeBuffer()
	if err := gopacket.SerializeLayers(buf, serOpts, ls...); err != nil {
		return nil, err
	}
	return append([]byte(nil), buf.Bytes()...), nil
}

// setChecksums leaves v4 in the Checksum field of the outer IPv4 layer and v in the one of the layer above it
// (what a caller who reuses layer objects, or who filled the struct from elsewhere, hands to SerializeTo).
func setChecksums(ls []gopacket.SerializableLayer, v4, v uint16) {
	if ip, ok := ls[0].(*layers.IPv4); ok {
		ip.Checksum = v4
	}
	switch x := ls[1].(type) {
	case *layers.TCP:
		x.Checksum = v
	case *layers.UDP:
		x.Checksum = v
	case *layers.ICMPv4:
		x.Checksum = v
	case *layers.ICMPv6:
		x.Checksum = v
	case *layers.GRE:
		x.Checksum = v
	}
}

// mk builds fresh layer objects for the spec; returns them and the offset of the checksummed layer.
func (s *spec) mk() ([]gopacket.SerializableLayer, int, error) {
	var ls []gopacket.SerializableLayer
	off := 40
	if s.v == 4 {
		off = 20
		if s.ipopt {
			off = 24
			if s.ipoptLen == 7 {
				off = 28
			}
		}
	}
	switch s.proto {
	case "ip4":
		ip, nl := s.ipLayer(layers.IPProtocolUDP)
		u := &layers.UDP{SrcPort: layers.UDPPort(s.sport), DstPort: layers.UDPPort(s.dport)}
		u.SetNetworkLayerForChecksum(nl)
		ls = []gopacket.SerializableLayer{ip, u, gopacket.Payload(s.pay)}
		off = 0
	case "tcp":
		ip, nl := s.ipLayer(layers.IPProtocolTCP)
		t := &layers.TCP{SrcPort: layers.TCPPort(s.sport), DstPort: layers.TCPPort(s.dport), Seq: s.seq, Ack: s.ack,
			Window: s.win, Urgent: s.urg, ACK: true, PSH: len(s.pay) > 0, DataOffset: 5}
		switch s.tcpopt {
		case 1:
			t.Options = []layers.TCPOption{{OptionType: layers.TCPOptionKindMSS, OptionLength: 4, OptionData: []byte{5, 0xb4}}}
		case 2:
			t.Options = []layers.TCPOption{{OptionType: layers.TCPOptionKindMSS, OptionLength: 4, OptionData: []byte{5, 0xb4}},
				{OptionType: layers.TCPOptionKindNop}, {OptionType: layers.TCPOptionKindNop},
				{OptionType: layers.TCPOptionKindSACKPermitted, OptionLength: 2}}
		}
		t.SetNetworkLayerForChecksum(nl)
		ls = []gopacket.SerializableLayer{ip, t, gopacket.Payload(s.pay)}
	case "udp":
		ip, nl := s.ipLayer(layers.IPProtocolUDP)
		u := &layers.UDP{SrcPort: layers.UDPPort(s.sport), DstPort: layers.UDPPort(s.dport)}
		u.SetNetworkLayerForChecksum(nl)
		ls = []gopacket.SerializableLayer{ip, u, gopacket.Payload(s.pay)}
	case "icmp4":
		ip, _ := s.ipLayer(layers.IPProtocolICMPv4)
		ic := &layers.ICMPv4{TypeCode: layers.CreateICMPv4TypeCode(s.typ, s.code), Id: s.icid, Seq: s.icsq}
		ls = []gopacket.SerializableLayer{ip, ic, gopacket.Payload(s.pay)}
	case "icmp6":
		ip, nl := s.ipLayer(layers.IPProtocolICMPv6)
		ic := &layers.ICMPv6{TypeCode: layers.CreateICMPv6TypeCode(s.typ, s.code)}
		ic.SetNetworkLayerForChecksum(nl)
		ls = []gopacket.SerializableLayer{ip, ic, gopacket.Payload(s.pay)}
	case "gre":
		ip, _ := s.ipLayer(layers.IPProtocolGRE)
		g := &layers.GRE{ChecksumPresent: s.greC, KeyPresent: s.greK, SeqPresent: s.greS, Key: s.greKey, Seq: s.greSeq,
			Offset: s.greOff, Protocol: layers.EthernetType(0x88b5)}
		if len(s.greRt) > 0 {
			g.RoutingPresent = true
			tail := &g.GRERouting
			for i, n := range s.greRt {
				ri := make([]byte, n)
				for j := range ri {
					ri[j] = byte(0x11*(i+1) + j)
				}
				*tail = &layers.GRERouting{AddressFamily: 0x0800, SREOffset: 0, SRELength: uint8(n), RoutingInformation: ri}
				tail = &(*tail).Next
			}
		}
		if s.inner {
			g.Protocol = layers.EthernetTypeIPv4
			iip := &layers.IPv4{Version: 4, TTL: 9, Id: s.id, Protocol: layers.IPProtocolUDP, SrcIP: net.IP{10, 0, 0, 1}, DstIP: net.IP{10, 0, 0, 2}}
			iu := &layers.UDP{SrcPort: layers.UDPPort(s.sport), DstPort: layers.UDPPort(s.dport)}
			iu.SetNetworkLayerForChecksum(iip)
			ls = []gopacket.SerializableLayer{ip, g, iip, iu, gopacket.Payload(s.pay)}
		} else {
			ls = []gopacket.SerializableLayer{ip, g, gopacket.Payload(s.pay)}
		}
	default:
		return nil, 0, fmt.Errorf("unknown proto %s", s.proto)
	}
	return ls, off, nil
}

// ---- input steering only (never used to judge) -------------------------------------------------

func fieldOff(proto string, off int) int {
	switch proto {
	case "ip4":
		return 10
	case "tcp":
		return off + 16
	case "udp":
		return off + 6
	case "gre":
		return off + 4
	}
	return off + 2
}

func hasField(proto string, b []byte, off int) bool { return proto != "gre" || b[off]&0x80 != 0 }

func onesAdd(a, b uint32) uint32 {
	s := a + b
	if s > 0xffff {
		s -= 0xffff
	}
	return s
}

// steerComputed: the checksum a sender computes for b with the field zero (before UDP's 0 -> 0xffff)
func steerComputed(proto string, v int, b []byte, off int) uint16 {
	lo, hi := off, len(b)
	if proto == "ip4" {
		lo, hi = 0, int(b[0]&0xf)*4
	}
	var acc uint32
	if proto == "tcp" || proto == "udp" || proto == "icmp6" {
		a0, a1, pr := 12, 20, uint32(b[9])
		if v == 6 {
			a0, a1, pr = 8, 40, uint32(b[6])
		}
		for i := a0; i < a1; i += 2 {
			acc = onesAdd(acc, uint32(b[i])<<8|uint32(b[i+1]))
		}
		acc = onesAdd(acc, pr)
		acc = onesAdd(acc, uint32(hi-lo))
	}
	f := fieldOff(proto, off)
	for i := lo; i < hi; i += 2 {
		var w uint32
		if i+1 < hi {
			w = uint32(b[i])<<8 | uint32(b[i+1])
		} else {
			w = uint32(b[i]) << 8
		}
		if i == f {
			w = 0
		}
		acc = onesAdd(acc, w)
	}
	return uint16(0xffff - acc)
}

// steer rewrites one word of the spec (last aligned payload word; IPv4 header: the Id) so that the computed
// checksum becomes target.  Returns false when the packet has no word to steer.
func steer(s *spec, target uint16) bool {
	if s.proto == "gre" && (!s.greC || len(s.greRt) > 0) {
		return false
	}
	if s.proto == "ip4" {
		s.id = 0
		b, off, err := s.build()
		if err != nil {
			return false
		}
		c0 := steerComputed(s.proto, s.v, b, off)
		s.id = uint16((uint32(c0) + 0xffff - uint32(target)) % 0xffff)
		return true
	}
	n := len(s.pay)
	if n < 2 {
		return false
	}
	pos := n - 2 - n%2
	s.pay[pos], s.pay[pos+1] = 0, 0
	b, off, err := s.build()
	if err != nil {
		return false
	}
	c0 := steerComputed(s.proto, s.v, b, off)
	w := uint16((uint32(c0) + 0xffff - uint32(target)) % 0xffff)
	binary.BigEndian.PutUint16(s.pay[pos:], w)
	return true
}

// ---- observation ---------------------------------------------------------------------------------

type obs struct {
	err             string
	valid           bool
	correct, actual uint32
}

func setNet(pk gopacket.Packet) {
	var nl gopacket.NetworkLayer
	for _, l := range pk.Layers() {
		switch x := l.(type) {
		case *layers.IPv4:
			nl = x
		case *layers.IPv6:
			nl = x
		case *layers.TCP:
			if nl != nil {
				x.SetNetworkLayerForChecksum(nl)
			}
		case *layers.UDP:
			if nl != nil {
				x.SetNetworkLayerForChecksum(nl)
			}
		case *layers.ICMPv6:
			if nl != nil {
				x.SetNetworkLayerForChecksum(nl)
			}
		}
	}
}

func layerType(proto string) gopacket.LayerType {
	switch proto {
	case "ip4":
		return layers.LayerTypeIPv4
	case "tcp":
		return layers.LayerTypeTCP
	case "udp":
		return layers.LayerTypeUDP
	case "icmp4":
		return layers.LayerTypeICMPv4
	case "icmp6":
		return layers.LayerTypeICMPv6
	}
	return layers.LayerTypeGRE
}

func protoOf(l gopacket.Layer) string {
	switch l.(type) {
	case *layers.IPv4:
		return "ip4"
	case *layers.TCP:
		return "tcp"
	case *layers.UDP:
		return "udp"
	case *layers.ICMPv4:
		return "icmp4"
	case *layers.ICMPv6:
		return "icmp6"
	case *layers.GRE:
		return "gre"
	}
	return l.LayerType().String()
}

func decode(b []byte, v int) gopacket.Packet {
	first := layers.LayerTypeIPv4
	if v == 6 {
		first = layers.LayerTypeIPv6
	}
	pk := gopacket.NewPacket(append([]byte(nil), b...), first, gopacket.Default)
	setNet(pk)
	return pk
}

func verifyLayer(pk gopacket.Packet, proto string) (o obs) {
	l := pk.Layer(layerType(proto))
	if l == nil {
		o.err = "layer-not-decoded"
		return
	}
	lwc, ok := l.(gopacket.LayerWithChecksum)
	if !ok {
		o.err = "not-a-LayerWithChecksum"
		return
	}
	msg, site, p := vh.Guard(func() {
		err, res := lwc.VerifyChecksum()
		if err != nil {
			o.err = "error: " + err.Error()
			return
		}
		o.valid, o.correct, o.actual = res.Valid, res.Correct, res.Actual
	})
	if p {
		o.err = "panic: " + msg + " @" + site
	}
	if len(o.err) > 120 {
		o.err = o.err[:120]
	}
	return
}

type harness struct {
	tr                             *vh.Trace
	r                              *vh.Rand
	nser, nverify, npverify, nflip int
	outcomes                       map[string]map[uint16]bool
	flipClass                      map[string]int
	nservar                        map[string]int // ser events by variant (a = again, d = decoded, g = garbage)
	nvar                           int
	doVariants                     bool
}

var progress atomic.Int64

func (h *harness) emitSer(s *spec, b []byte, off int) {
	h.tr.Emit(vh.M{"op": "ser", "proto": s.proto, "v": s.v, "off": off, "bytes": vh.Ints(b)})
	h.nser++
	if hasField(s.proto, b, off) {
		k := fmt.Sprintf("%s/%d", s.proto, s.v)
		if h.outcomes[k] == nil {
			h.outcomes[k] = map[uint16]bool{}
		}
		h.outcomes[k][binary.BigEndian.Uint16(b[fieldOff(s.proto, off):])] = true
	}
	progress.Add(1)
}

func (h *harness) emitVerify(s *spec, b []byte, off int, flip []int, withP bool) {
	pk := decode(b, s.v)
	o := verifyLayer(pk, s.proto)
	if flip == nil {
		flip = []int{}
	}
	h.tr.Emit(vh.M{"op": "verify", "proto": s.proto, "v": s.v, "off": off, "bytes": vh.Ints(b), "flip": flip,
		"err": o.err, "valid": o.valid, "correct": int(o.correct), "actual": int(o.actual)})
	h.nverify++
	if withP && !s.inner && s.proto != "ip4" {
		mism := []vh.M{}
		es := ""
		msg, site, p := vh.Guard(func() {
			err, mm := pk.VerifyChecksums()
			if err != nil {
				es = "error: " + err.Error()
				return
			}
			for _, m := range mm {
				mism = append(mism, vh.M{"layer": protoOf(m.Layer), "correct": int(m.Correct), "actual": int(m.Actual)})
			}
		})
		if p {
			es = "panic: " + msg + " @" + site
		}
		if len(es) > 120 {
			es = es[:120]
		}
		h.tr.Emit(vh.M{"op": "pverify", "proto": s.proto, "v": s.v, "off": off, "bytes": vh.Ints(b), "flip": flip,
			"err": es, "mism": mism})
		h.npverify++
	}
	progress.Add(1)
}

// flippable byte offsets by class: everything the checksum (or its pseudo-header) covers except framing
// (version, header lengths, total/payload length, protocol, fragmentation, TCP data offset/flags and options,
// UDP length, ICMP type/code, GRE flags/protocol).
func flippable(s *spec, b []byte, off int) map[string][]int {
	m := map[string][]int{}
	rng := func(c string, lo, hi int) {
		for i := lo; i < hi && i < len(b); i++ {
			m[c] = append(m[c], i)
		}
	}
	if s.v == 4 {
		rng("addr", 12, 20)
	} else {
		rng("addr", 8, 40)
	}
	f := fieldOff(s.proto, off)
	switch s.proto {
	case "ip4":
		m["hdr"] = []int{1, 4, 5, 8}
		rng("cksum", 10, 12)
	case "tcp":
		rng("ports", off, off+4)
		rng("seqack", off+4, off+12)
		rng("hdr", off+14, off+16)
		rng("cksum", f, f+2)
		rng("hdr", off+18, off+20)
		rng("payload", off+int(b[off+12]>>4)*4, len(b))
	case "udp":
		rng("ports", off, off+4)
		rng("cksum", f, f+2)
		rng("payload", off+8, len(b))
	case "icmp4":
		rng("cksum", f, f+2)
		rng("hdr", off+4, off+8)
		rng("payload", off+8, len(b))
	case "icmp6":
		rng("cksum", f, f+2)
		rng("payload", off+4, len(b))
	case "gre":
		if hasField(s.proto, b, off) {
			rng("cksum", f, f+2)
			rng("hdr", off+6, off+8)
			if len(s.greRt) == 0 {
				rng("payload", off+8, len(b))
			} else {
				// the entry headers and the terminating NULL entry are structure (a flipped length makes the
				// header undecodable, which is no checksum verdict): key, sequence number, routing information
				// and payload stay flippable
				q := off + 8
				if s.greK {
					q += 4
				}
				if s.greS {
					q += 4
				}
				rng("hdr", off+8, q)
				for _, n := range s.greRt {
					rng("route", q+4, q+4+n)
					q += 4 + n
				}
				rng("payload", q+4, len(b))
			}
		} else if len(s.greRt) == 0 {
			rng("payload", off+4, len(b))
		} else {
			q := off + 8
			if s.greK {
				q += 4
			}
			if s.greS {
				q += 4
			}
			for _, n := range s.greRt {
				q += 4 + n
			}
			rng("payload", q+4, len(b))
		}
	}
	return m
}

// scenario: serialize, verify unchanged, then verify flipped copies.  nflips < 0: every bit of every flippable byte.
func (h *harness) scenario(s *spec, nflips int, allCk bool) bool {
	ls, off, err := s.mk()
	if err != nil {
		vh.Fatal("serialize failed:", err, s.proto, s.v)
	}
	b, err := serialize(ls)
	if err != nil {
		vh.Fatal("serialize failed:", err, s.proto, s.v)
	}
	h.emitSer(s, b, off)
	h.emitVerify(s, b, off, nil, true)
	defer h.variants(s, ls, b, off)
	if nflips == 0 {
		return true
	}
	fl := flippable(s, b, off)
	type fb struct {
		o, bit int
		c      string
	}
	var picks []fb
	if nflips < 0 {
		for _, c := range []string{"addr", "ports", "seqack", "hdr", "payload", "cksum"} {
			for _, o := range fl[c] {
				for bit := 0; bit < 8; bit++ {
					picks = append(picks, fb{o, bit, c})
				}
			}
		}
	} else {
		classes := []string{"addr", "ports", "seqack", "hdr", "payload", "cksum"}
		for _, c := range classes { // one flip in every class present, then random ones
			if os := fl[c]; len(os) > 0 {
				picks = append(picks, fb{os[h.r.Intn(len(os))], h.r.Intn(8), c})
			}
		}
		if os := fl["payload"]; len(os) > 0 { // the last byte (the padded one when the length is odd)
			picks = append(picks, fb{os[len(os)-1], h.r.Intn(8), "payload"})
		}
		for len(picks) < nflips {
			c := classes[h.r.Intn(len(classes))]
			if os := fl[c]; len(os) > 0 {
				picks = append(picks, fb{os[h.r.Intn(len(os))], h.r.Intn(8), c})
			}
		}
		if allCk {
			for _, o := range fl["cksum"] {
				for bit := 0; bit < 8; bit++ {
					picks = append(picks, fb{o, bit, "cksum"})
				}
			}
		}
	}
	seen := map[[2]int]bool{}
	for i, p := range picks {
		if seen[[2]int{p.o, p.bit}] {
			continue
		}
		seen[[2]int{p.o, p.bit}] = true
		c := append([]byte(nil), b...)
		c[p.o] ^= 1 << uint(p.bit)
		h.emitVerify(s, c, off, []int{p.o, p.bit}, i%3 == 0)
		h.nflip++
		h.flipClass[p.c]++
	}
	return true
}

// emitSerV records a serialization that did not start from fresh structs; over IPv4 the same bytes are also
// judged as a serialization of the IPv4 header.
func (h *harness) emitSerV(s *spec, b []byte, off int, variant string) {
	h.tr.Emit(vh.M{"op": "ser", "proto": s.proto, "v": s.v, "off": off, "bytes": vh.Ints(b), "variant": variant})
	h.nservar[variant[:1]]++
	if s.v == 4 && s.proto != "ip4" {
		h.tr.Emit(vh.M{"op": "ser", "proto": "ip4", "v": 4, "off": 0, "bytes": vh.Ints(b), "variant": variant})
		h.nservar[variant[:1]]++
	}
	progress.Add(1)
}

// variants: the written checksum must not depend on what the Checksum field of the layer struct held before:
//
//	again     the same layer objects serialized a second time into a new buffer
//	reused-dirty-buffer  fresh structs serialized into a buffer that held 0xEE bytes and was cleared
//	decoded   the layers obtained by decoding the produced packet, re-serialized
//	garbage:x fresh structs whose Checksum fields were pre-set (ffff, 1234, correct+1)
func (h *harness) variants(s *spec, ls []gopacket.SerializableLayer, b []byte, off int) {
	if !h.doVariants {
		return
	}
	b2, err := serialize(ls)
	if err != nil {
		vh.Fatal("second serialization failed:", err, s.proto, s.v)
	}
	h.emitSerV(s, b2, off, "again")

	// a buffer that held other data and was cleared: what the layer does not write explicitly (padding) is stale
	dl2, _, err := s.mk()
	if err != nil {
		vh.Fatal("serialize failed:", err, s.proto, s.v)
	}
	dbuf := gopacket.NewSerializeBuffer()
	if g, err := dbuf.PrependBytes(len(b) + 64); err == nil {
		for i := range g {
			g[i] = 0xEE
		}
	}
	dbuf.Clear()
	if err := gopacket.SerializeLayers(dbuf, serOpts, dl2...); err != nil {
		vh.Fatal("serialization into a reused buffer failed:", err, s.proto, s.v)
	}
	h.emitSerV(s, append([]byte(nil), dbuf.Bytes()...), off, "reused-dirty-buffer")

	pk := decode(b, s.v)
	dl := pk.Layers()
	if len(dl) < 2 {
		vh.Fatal("decoding the produced packet gave fewer than two layers", s.proto, s.v)
	}
	l0, ok0 := dl[0].(gopacket.SerializableLayer)
	l1, ok1 := dl[1].(gopacket.SerializableLayer)
	if !ok0 || !ok1 {
		vh.Fatal("decoded layers are not serializable", s.proto, s.v)
	}
	b3, err := serialize([]gopacket.SerializableLayer{l0, l1, gopacket.Payload(dl[1].LayerPayload())})
	if err != nil {
		vh.Fatal("serializing the decoded layers failed:", err, s.proto, s.v)
	}
	h.emitSerV(s, b3, off, "decoded")

	var cur, cur4 uint16 // what the fresh serialization wrote
	if hasField(s.proto, b, off) {
		cur = binary.BigEndian.Uint16(b[fieldOff(s.proto, off):])
	}
	if s.v == 4 {
		cur4 = binary.BigEndian.Uint16(b[10:])
	}
	h.nvar++
	for gi, g := range [][3]interface{}{{"garbage:ffff", uint16(0xffff), uint16(0xffff)}, {"garbage:1234", uint16(0x1234), uint16(0x1234)},
		{"garbage:correct+1", cur + 1, cur4 + 1}} {
		if h.nvar%4 != 0 && gi != h.nvar%3 { // all three on every fourth packet, one in rotation otherwise
			continue
		}
		gl, _, err := s.mk()
		if err != nil {
			vh.Fatal("serialize failed:", err, s.proto, s.v)
		}
		setChecksums(gl, g[2].(uint16), g[1].(uint16))
		b4, err := serialize(gl)
		if err != nil {
			vh.Fatal("serialize failed:", err, s.proto, s.v)
		}
		h.emitSerV(s, b4, off, g[0].(string))
	}
}

func (h *harness) addr(v int) net.IP {
	n := 4
	if v == 6 {
		n = 16
	}
	switch h.r.Intn(6) {
	case 0:
		return net.IP(make([]byte, n))
	case 1:
		a := make([]byte, n)
		for i := range a {
			a[i] = 0xff
		}
		return net.IP(a)
	}
	return net.IP(h.r.Bytes(n))
}

func (h *harness) u16() uint16 {
	switch h.r.Intn(8) {
	case 0:
		return 0
	case 1:
		return 0xffff
	}
	return uint16(h.r.U64())
}

func (h *harness) u32() uint32 {
	switch h.r.Intn(8) {
	case 0:
		return 0
	case 1:
		return 0xffffffff
	}
	return uint32(h.r.U64())
}

func (h *harness) payload(n int) []byte {
	switch h.r.Intn(6) {
	case 0:
		return make([]byte, n)
	case 1:
		b := make([]byte, n)
		for i := range b {
			b[i] = 0xff
		}
		return b
	}
	return h.r.Bytes(n)
}

var combos = [][2]interface{}{{"ip4", 4}, {"tcp", 4}, {"tcp", 6}, {"udp", 4}, {"udp", 6}, {"icmp4", 4}, {"icmp6", 6}, {"gre", 4}, {"gre", 6}}

func (h *harness) randSpec(proto string, v int, maxPay int) *spec {
	s := &spec{proto: proto, v: v, src: h.addr(v), dst: h.addr(v), pay: h.payload(h.r.Intn(maxPay + 1)),
		tos: uint8(h.r.U64()), ttl: uint8(h.r.U64()), id: h.u16(), sport: h.u16(), dport: h.u16(), seq: h.u32(), ack: h.u32(),
		win: h.u16(), urg: h.u16(), tcpopt: h.r.Intn(3), icid: h.u16(), icsq: h.u16(), greKey: h.u32(), greSeq: h.u32(), greOff: h.u16()}
	if v == 6 {
		s.id = s.id & 0xfff
	}
	s.ipoptLen = []int{4, 3, 7}[h.r.Intn(3)]
	switch proto {
	case "ip4":
		s.ipopt = h.r.Intn(3) == 0
	case "icmp4":
		s.typ, s.code = []uint8{8, 0, 3, 11, 13}[h.r.Intn(5)], uint8(h.r.Intn(4))
	case "icmp6":
		s.typ, s.code = []uint8{128, 129, 1, 3, 200}[h.r.Intn(5)], uint8(h.r.Intn(4))
	case "gre":
		s.greC = h.r.Intn(5) != 0
		s.greK, s.greS = h.r.Bool(), h.r.Bool()
		s.inner = h.r.Intn(8) == 0
		if h.r.Intn(3) == 0 {
			for i := 1 + h.r.Intn(2); i > 0; i-- {
				s.greRt = append(s.greRt, []int{1, 2, 3, 4, 5, 8}[h.r.Intn(6)])
			}
		}
		if s.v == 4 {
			s.ipopt = h.r.Intn(6) == 0
		}
	case "tcp", "udp":
		if s.v == 4 {
			s.ipopt = h.r.Intn(8) == 0
		}
	}
	return s
}

// watchdog: the library calls here take microseconds; no progress for 20 s is a hang
func watchdog(tr *vh.Trace) {
	last, stuck := int64(-1), 0
	for {
		time.Sleep(1 * time.Second)
		cur := progress.Load()
		if cur == last {
			stuck++
		} else {
			last, stuck = cur, 0
		}
		if stuck >= 20 && cur > 0 {
			tr.Emit(vh.M{"op": "hang", "at": int(cur)})
			tr.Close()
			fmt.Printf("{\"events\":%d,\"hang\":true}\n", tr.N)
			os.Exit(3)
		}
	}
}

func main() {
	out := flag.String("trace", "trace.ndjson", "output trace")
	seed := flag.Uint64("seed", 1, "seed")
	nfold := flag.Int("folds", 2000, "random accumulators for FoldChecksum (boundary values are always included)")
	foldAll := flag.Bool("foldall", false, "every accumulator 0..0x2ffff")
	nsum := flag.Int("sums", 6, "ComputeChecksum inputs per length 0..67")
	npk := flag.Int("packets", 50, "randomly steered packets per protocol/IP version")
	nflipPk := flag.Int("flippackets", 200, "packets whose bits are flipped")
	flips := flag.Int("flips", 12, "bit flips per such packet (-1: every covered non-framing bit)")
	allbits := flag.Int("allbits", 2, "of those, packets in which every covered non-framing bit is flipped")
	maxPay := flag.Int("maxpay", 24, "maximum payload length")
	sweep := flag.Bool("sweep", false, "all 65536 checksum outcomes for UDP/IPv4, TCP/IPv4, ICMPv4")
	flag.Parse()
	tr := vh.NewTrace(*out)
	go watchdog(tr)
	h := &harness{tr: tr, r: vh.NewRand(*seed), outcomes: map[string]map[uint16]bool{}, flipClass: map[string]int{},
		nservar: map[string]int{}, doVariants: true}
	r := h.r

	// ---- FoldChecksum
	accs := map[uint32]bool{}
	add := func(c uint64) {
		if c <= 0xffffffff {
			accs[uint32(c)] = true
		}
	}
	for c := uint64(0); c <= 0x300; c++ {
		add(c)
		add(0xffffffff - c)
	}
	for _, base := range []uint64{0xffff, 0x10000, 0x1fffe, 0x1ffff, 0x20000, 0x2fffd, 0x2ffff, 0x30000, 0x7fffffff, 0x80000000, 0xfffeffff, 0xffff0000, 0xfffe0001} {
		for d := uint64(0); d <= 0x40; d++ {
			add(base + d)
			if base >= d {
				add(base - d)
			}
		}
	}
	for _, k := range []uint64{1, 2, 3, 4, 5, 15, 16, 17, 255, 256, 257, 4095, 32767, 32768, 32769, 65534, 65535, 65536, 65537} {
		for d := uint64(0); d <= 2; d++ {
			add(k*0xffff + d)
			add(k*0xffff - d)
			add(k*0x10000 + d)
			add(k*0x10000 - d)
		}
	}
	for k := uint(0); k < 32; k++ {
		add(1<<k - 1)
		add(1 << k)
		add(1<<k + 1)
	}
	if *foldAll {
		for c := uint64(0); c <= 0x2ffff; c++ {
			add(c)
		}
	}
	for i := 0; i < *nfold; i++ {
		switch r.Intn(3) {
		case 0:
			add(r.U64() & 0xffffffff)
		case 1:
			add(uint64(r.Intn(65538))*0xffff + uint64(r.Intn(3)))
		default:
			add(uint64(r.Intn(0x40000)))
		}
	}
	nfoldEv := 0
	emitFold := func(c uint32) {
		o := gopacket.FoldChecksum(c)
		tr.Emit(vh.M{"op": "fold", "chi": int(c >> 16), "clo": int(c & 0xffff), "out": int(o)})
		nfoldEv++
	}
	keys := make([]uint32, 0, len(accs))
	for c := range accs {
		keys = append(keys, c)
	}
	sort.Slice(keys, func(i, j int) bool { return keys[i] < keys[j] })
	for _, c := range keys {
		emitFold(c)
	}
	progress.Add(1)

	// ---- ComputeChecksum: every length 0..67, boundary contents, accumulators up to the edge of uint32
	nsumEv := 0
	for n := 0; n <= 67; n++ {
		for j := 0; j < *nsum; j++ {
			var data []byte
			switch j % 6 {
			case 0:
				data = make([]byte, n)
				for i := range data {
					data[i] = 0xff
				}
			case 1:
				data = make([]byte, n)
			default:
				data = h.payload(n)
			}
			var raw uint64
			for i := 0; i < n; i += 2 {
				raw += uint64(data[i]) << 8
				if i+1 < n {
					raw += uint64(data[i+1])
				}
			}
			var init uint32
			switch j % 6 {
			case 0, 4:
				init = 0
			case 1:
				init = []uint32{0, 0xffff, 0x10000, 0xffff0000}[(n+j)%4]
			case 2:
				init = uint32(0xffffffff - raw) // the largest accumulator that does not overflow
			case 3:
				init = uint32(r.U64()) >> uint(r.Intn(20))
			case 5:
				init = uint32(0xffffffff-raw) + uint32(r.Intn(3)) // at and just beyond the edge (beyond: outside the contract)
			}
			o := gopacket.ComputeChecksum(data, init)
			tr.Emit(vh.M{"op": "sum", "bytes": vh.Ints(data), "ihi": int(init >> 16), "ilo": int(init & 0xffff),
				"ohi": int(o >> 16), "olo": int(o & 0xffff)})
			nsumEv++
		}
	}
	progress.Add(1)

	// ---- packets
	flipBudget := *nflipPk
	allBudget := *allbits
	nf := func(always bool) int {
		if flipBudget > 0 && (always || r.Intn(3) == 0) {
			flipBudget--
			if allBudget > 0 && !always {
				allBudget--
				return -1
			}
			return *flips
		}
		return 0
	}
	// the documented witness first: UDP 1.2.3.4:1 -> 5.6.7.8:2, payload ef c3 computes 0 and is sent as 0xffff
	w := &spec{proto: "udp", v: 4, src: net.IP{1, 2, 3, 4}, dst: net.IP{5, 6, 7, 8}, sport: 1, dport: 2, pay: []byte{0xef, 0xc3}, ttl: 64}
	h.scenario(w, -1, true)
	// ICMPv4 all zero: the only way a sender computes 0xffff
	for _, n := range []int{0, 1, 2, 7} {
		z := &spec{proto: "icmp4", v: 4, src: net.IP{1, 2, 3, 4}, dst: net.IP{5, 6, 7, 8}, typ: 0, code: 0, pay: make([]byte, n), ttl: 64}
		h.scenario(z, *flips, true)
	}
	// special outcomes for every protocol / IP version, odd and even payload lengths
	specials := []uint16{0x0000, 0xffff, 0x0001, 0xfffe, 0x8000, 0x0100, 0x00ff, 0xff00, 0x7fff}
	for _, c := range combos {
		proto, v := c[0].(string), c[1].(int)
		for _, t := range specials {
			for _, n := range []int{2, 3, 8, 9} {
				s := h.randSpec(proto, v, 0)
				s.inner = false
				if proto == "gre" {
					s.greC = true
				}
				s.pay = h.payload(n)
				if !steer(s, t) {
					continue
				}
				// stored powers of two: flipping that bit of the field stores 0 (UDP: "no checksum" over IPv4)
				h.scenario(s, nf(n == 2), true)
				if proto == "ip4" {
					break
				}
			}
		}
	}
	// seeded random packets, most of them steered to random outcomes
	for i := 0; i < *npk; i++ {
		for _, c := range combos {
			proto, v := c[0].(string), c[1].(int)
			s := h.randSpec(proto, v, *maxPay)
			if r.Intn(4) != 0 && !s.inner {
				steer(s, uint16(r.U64()))
			}
			h.scenario(s, nf(false), r.Intn(4) == 0)
		}
	}
	// all 65536 outcomes on minimal packets
	if *sweep {
		for _, proto := range []string{"udp", "tcp", "icmp4"} {
			for t := 0; t < 65536; t++ {
				s := &spec{proto: proto, v: 4, src: net.IP{192, 0, 2, 1}, dst: net.IP{198, 51, 100, 7}, sport: 4660, dport: 53,
					seq: 1, ack: 2, win: 512, typ: 8, icid: 7, icsq: uint16(t), pay: []byte{0, 0}, ttl: 64}
				if t%2 == 1 {
					s.pay = []byte{0, 0, byte(t >> 3)}
				}
				steer(s, uint16(t))
				n := 0
				if t%2048 == 5 {
					n = *flips
				}
				h.doVariants = t%16 == 0
				h.scenario(s, n, false)
			}
		}
	}
	tr.Close()
	dist := vh.M{}
	zero, ones := 0, 0
	for k, m := range h.outcomes {
		dist[k] = len(m)
		if m[0] {
			zero++
		}
		if m[0xffff] {
			ones++
		}
	}
	st := vh.M{"events": tr.N, "fold": nfoldEv, "sum": nsumEv, "ser": h.nser, "verify": h.nverify, "pverify": h.npverify,
		"ser_again": h.nservar["a"], "ser_reused_dirty_buffer": h.nservar["r"], "ser_decoded": h.nservar["d"], "ser_garbage": h.nservar["g"],
		"flips": h.nflip, "flip_classes": h.flipClass, "distinct_stored_values": dist, "combos_with_stored_0000": zero,
		"combos_with_stored_ffff": ones}
	js, _ := json.Marshal(st)
	fmt.Println(string(js))
}
