// pure: drives the real decoders for the determinism / purity monitor Pure.tla (C02, and C04 a+b).
//
//	-phase hist   sequential histories exported by TLC from PureGen.tla (decode A, B, (C), A again) instantiated on
//	              seeded pools of K real inputs; one "call" event per NewPacket
//	-phase conc   the same histories dealt to G goroutines running concurrently (after a sequential baseline)
//	-phase share  one eager packet, network layer linked once, sequential baseline of every accessor, then G
//	              goroutines running the TLC-exported accessor programs; "read" events
//	-phase own    C04: every input decoded under copy / nocopy / pool in a TLC-exported order (ownership projected
//	              out of the key), then one packet is held, read, its input buffer flipped, read again
//
// conc and share are meant for the -race build: the process re-executes itself as a child and converts the
// child's race reports into "race" events (package racerep).  All digests are opaque (package pdig).
package main

import (
	"bufio"
	"bytes"
	"encoding/json"
	"flag"
	"fmt"
	"os"
	"strings"
	"sync"
	"sync/atomic"
	"time"

	"github.com/gopacket/gopacket"
	"verif/harness/corpus"
	"verif/harness/pdig"
	"verif/harness/racerep"
	"verif/harness/vh"
)

type item struct {
	name  string
	data  []byte
	first gopacket.LayerType
}

type histSc struct {
	Kind string `json:"kind"`
	Opt  struct {
		Lazy bool   `json:"lazy"`
		Dsad bool   `json:"dsad"`
		Own  string `json:"own"`
	} `json:"opt"`
	H     []int      `json:"h"`
	Progs [][]string `json:"progs"`
	Steps [][]string `json:"steps"`
}

const spare = 48 // spare capacity behind the caller's bytes; a decoder that appends to its input writes here

// what lies behind the caller's bytes is not part of the input: the canary differs from call to call (variant v),
// so a decoder that reads past the end of its input returns something that depends on the history
func canaryOf(v int) []byte {
	b := make([]byte, spare)
	for i := range b {
		b[i] = byte(0xC3 ^ i ^ (v * 0x35))
	}
	return b
}

// callerBuf returns the caller's buffer: the bytes, with `spare` canary bytes of capacity behind them.
func callerBuf(d []byte) []byte { return callerBufV(d, 0) }

func callerBufV(d []byte, v int) []byte {
	b := make([]byte, len(d)+spare)
	copy(b, d)
	copy(b[len(d):], canaryOf(v))
	return b[:len(d)]
}

func bufIntact(b, d []byte) bool { return bufIntactV(b, d, 0) }

func bufIntactV(b, d []byte, v int) bool {
	full := b[:len(d)+spare]
	return bytes.Equal(full[:len(d)], d) && bytes.Equal(full[len(d):], canaryOf(v))
}

func decOpts(lazy, dsad bool, own string) gopacket.DecodeOptions {
	return gopacket.DecodeOptions{Lazy: lazy, DecodeStreamsAsDatagrams: dsad, NoCopy: own == "nocopy", Pool: own == "pool"}
}

type callRes struct {
	digest string
	intact bool
	nl     int
	pmsg   string
	psite  string
}

// doCall: one NewPacket on buf (the caller's buffer holding it.data), digest of the result.
func doCall(it item, buf []byte, lazy, dsad bool, own string, checkIntact bool) callRes {
	return doCallV(it, buf, lazy, dsad, own, checkIntact, 0)
}

func doCallV(it item, buf []byte, lazy, dsad bool, own string, checkIntact bool, v int) callRes {
	var r callRes
	msg, site, p := vh.Guard(func() {
		pk := gopacket.NewPacket(buf, it.first, decOpts(lazy, dsad, own))
		r.digest = pdig.Packet(pk)
		r.nl = pdig.NumLayers(pk)
		if pp, ok := pk.(gopacket.PooledPacket); ok {
			pp.Dispose()
		}
	})
	if p {
		r.pmsg, r.psite = msg, vh.SiteSig(corpus.Repo(), site)
		r.digest = "panic"
	}
	r.intact = true
	if checkIntact {
		r.intact = bufIntactV(buf, it.data, v)
	}
	return r
}

func callEvent(sc, idx int, it item, lazy, dsad bool, own, phase string, g int, r callRes) []vh.M {
	// kept slim (TLC parses every field): the input's name is in the epoch event ("items"), indexed by "in"
	ev := vh.M{"op": "call", "sc": sc, "in": idx, "first": it.first.String(),
		"lazy": lazy, "dsad": dsad, "own": own, "digest": r.digest, "intact": r.intact, "phase": phase,
		"sig": it.first.String()}
	if g > 0 {
		ev["g"] = g // goroutine (concurrent phase only)
	}
	if r.pmsg != "" {
		m := r.pmsg
		if len(m) > 120 {
			m = m[:120]
		}
		return []vh.M{{"op": "panic", "sc": sc, "in": idx, "name": it.name, "first": it.first.String(), "acc": "NewPacket", "msg": m, "sig": r.psite}}
	}
	return []vh.M{ev}
}

// ---------------------------------------------------------------------------------------------------
// input universe

type universe struct {
	fx      []corpus.Fixture
	byFirst map[gopacket.LayerType][]int
	csum    []int // fixtures with at least one checksummed layer above the network layer
	// fixtures by the type of a checksummed layer they contain (for header-only inputs: the checksum is then
	// computed over a header whose payload is empty)
	csumBy    map[gopacket.LayerType][]int
	csumTypes []gopacket.LayerType
}

func loadUniverse() *universe {
	u := &universe{fx: corpus.Load(), byFirst: map[gopacket.LayerType][]int{}, csumBy: map[gopacket.LayerType][]int{}}
	for i, f := range u.fx {
		u.byFirst[f.First] = append(u.byFirst[f.First], i)
		func() {
			defer func() { recover() }()
			p := gopacket.NewPacket(f.Data, f.First, gopacket.DecodeOptions{DecodeStreamsAsDatagrams: true})
			n := 0
			for _, l := range p.Layers() {
				if _, ok := l.(gopacket.LayerWithChecksum); ok {
					n++
					if u.csumBy[l.LayerType()] == nil {
						u.csumTypes = append(u.csumTypes, l.LayerType())
					}
					u.csumBy[l.LayerType()] = append(u.csumBy[l.LayerType()], i)
				}
			}
			if n >= 2 || (n == 1 && p.NetworkLayer() == nil) {
				u.csum = append(u.csum, i)
			}
		}()
	}
	return u
}

func (u *universe) variant(r *vh.Rand, f corpus.Fixture, maxlen int) item {
	it := item{name: f.Name, data: f.Data, first: f.First}
	switch k := r.Intn(20); {
	case k < 7:
		d, m := corpus.Mutate(r, f.Data)
		it.data, it.name = d, f.Name+"~"+m
	case k < 10:
		if d, m := corpus.LayerAware(r, f); d != nil {
			it.data, it.name = d, f.Name+"~"+m
		}
	case k < 12:
		// start at an inner layer
		func() {
			defer func() { recover() }()
			p := gopacket.NewPacket(f.Data, f.First, gopacket.Default)
			ls := p.Layers()
			if len(ls) >= 2 {
				j := r.Intn(len(ls) - 1)
				if pl := ls[j].LayerPayload(); len(pl) > 0 && ls[j+1].LayerType() != gopacket.LayerTypeDecodeFailure {
					it = item{name: fmt.Sprintf("%s@layer%d", f.Name, j+1), data: append([]byte(nil), pl...), first: ls[j+1].LayerType()}
				}
			}
		}()
	}
	if len(it.data) > maxlen {
		it.data = it.data[:maxlen]
	}
	return it
}

// headerOnly: a fixture cut behind the header of a checksummed layer, the layer type chosen uniformly
func (u *universe) headerOnly(r *vh.Rand) (item, bool) {
	if len(u.csumTypes) == 0 {
		return item{}, false
	}
	t := u.csumTypes[r.Intn(len(u.csumTypes))]
	ix := u.csumBy[t]
	f := u.fx[ix[r.Intn(len(ix))]]
	d, m := corpus.HeaderOnly(r, f, func(l gopacket.Layer) bool { return l.LayerType() == t })
	if d == nil {
		return item{}, false
	}
	return item{name: f.Name + "~" + m, data: d, first: f.First}, true
}

// pool: K inputs; mostly of one first-layer type, some near-duplicates of the first one (where hidden
// per-decoder state would show), some unrelated.
func (u *universe) pool(r *vh.Rand, k int, wantCsum bool) []item {
	var base corpus.Fixture
	if wantCsum && len(u.csum) > 0 {
		base = u.fx[u.csum[r.Intn(len(u.csum))]]
	} else {
		base = u.fx[r.Intn(len(u.fx))]
	}
	same := u.byFirst[base.First]
	out := []item{u.variant(r, base, 9000)}
	if r.Intn(3) == 0 {
		out[0] = item{name: base.Name, data: base.Data, first: base.First}
	}
	for len(out) < k {
		switch c := r.Intn(10); {
		case c < 3: // near-duplicate of the first
			d, m := corpus.Mutate(r, out[0].data)
			if len(d) > 9000 {
				d = d[:9000]
			}
			out = append(out, item{name: out[0].name + "~" + m, data: d, first: out[0].first})
		case c < 8:
			out = append(out, u.variant(r, u.fx[same[r.Intn(len(same))]], 9000))
		default:
			out = append(out, u.variant(r, u.fx[r.Intn(len(u.fx))], 9000))
		}
	}
	return out
}

// ---------------------------------------------------------------------------------------------------

var progress atomic.Int64
var curDesc atomic.Value
var ticks racerep.Ticks // progress inside a concurrent scenario, per goroutine

func watchdog(tr *vh.Trace, limit int) {
	last, stuck := int64(-1), 0
	lastTick := int64(-1)
	for {
		time.Sleep(time.Second)
		cur := progress.Load()
		if tk := ticks.Sum(); cur == last && tk != lastTick {
			lastTick, stuck = tk, 0
			continue
		}
		if cur == last {
			stuck++
		} else {
			last, stuck = cur, 0
		}
		if stuck >= limit && cur > 0 {
			d, _ := curDesc.Load().(string)
			tr.Emit(vh.M{"op": "sc", "sc": int(cur), "sig": ""})
			tr.Emit(vh.M{"op": "hang", "sc": int(cur), "name": d, "sig": "hang"})
			tr.Close()
			fmt.Printf("{\"scenarios\":%d,\"events\":%d,\"hang\":true}\n", cur, tr.N)
			os.Exit(3)
		}
	}
}

func readScenarios(path, kind string) []histSc {
	var out []histSc
	f, err := os.Open(path)
	if err != nil {
		vh.Fatal(err)
	}
	defer f.Close()
	rd := bufio.NewScanner(f)
	rd.Buffer(make([]byte, 1<<20), 1<<24)
	for rd.Scan() {
		if len(bytes.TrimSpace(rd.Bytes())) == 0 {
			continue
		}
		var s histSc
		if err := json.Unmarshal(rd.Bytes(), &s); err != nil {
			vh.Fatal("bad scenario:", err)
		}
		if s.Kind == kind {
			out = append(out, s)
		}
	}
	if len(out) == 0 {
		vh.Fatal("no scenarios of kind", kind)
	}
	return out
}

type stats struct {
	Scenarios  int            `json:"scenarios"`
	Events     int            `json:"events"`
	Calls      int            `json:"calls"`
	Reads      int            `json:"reads"`
	Nontrivial int            `json:"nontrivial"`
	Pools      int            `json:"pools"`
	Firsts     int            `json:"firsts"`
	Race       bool           `json:"race_enabled"`
	Races      int            `json:"races"`
	Crash      string         `json:"crash,omitempty"`
	Own        map[string]int `json:"own,omitempty"`
	Lens       map[string]int `json:"lens,omitempty"`
	HeaderOnly int            `json:"header_only_inputs,omitempty"`
}

type ctx struct {
	tr     *vh.Trace
	sc     int
	st     stats
	nt     map[string]bool
	firsts map[string]bool
}

// hexOf: the input bytes for the replay file (short inputs only; TLC never looks at it)
func hexOf(d []byte) string {
	if len(d) > 200 {
		return fmt.Sprintf("%x...(%d bytes)", d[:200], len(d))
	}
	return fmt.Sprintf("%x", d)
}

func itemNames(items []item) []string {
	var out []string
	for _, it := range items {
		out = append(out, fmt.Sprintf("%s first=%s len=%d", it.name, it.first, len(it.data)))
	}
	return out
}

func (c *ctx) note(it item, opts string, nl int) {
	c.st.Calls++
	c.firsts[it.first.String()] = true
	if nl >= 2 {
		c.nt[it.name+"|"+it.first.String()+"|"+opts] = true
	}
}

func (c *ctx) next(desc string) int {
	c.sc++
	progress.Store(int64(c.sc))
	curDesc.Store(desc)
	return c.sc
}

// hist: sequential histories
func runHist(c *ctx, u *universe, scen []histSc, pools, k int, r *vh.Rand) {
	for p := 0; p < pools; p++ {
		items := u.pool(r, k, false)
		c.tr.Emit(vh.M{"op": "epoch", "sc": c.sc + 1, "proj": false, "sig": "", "items": itemNames(items)})
		c.st.Pools++
		for _, s := range scen {
			sc := c.next(items[0].name)
			c.tr.Emit(vh.M{"op": "sc", "sc": sc, "sig": "", "h": s.H})
			for n, idx := range s.H {
				it := items[(idx-1)%len(items)]
				buf := callerBufV(it.data, n)
				res := doCallV(it, buf, s.Opt.Lazy, s.Opt.Dsad, s.Opt.Own, true, n)
				for _, ev := range callEvent(sc, idx, it, s.Opt.Lazy, s.Opt.Dsad, s.Opt.Own, "seq", 0, res) {
					c.tr.Emit(ev)
				}
				c.note(it, fmt.Sprint(s.Opt), res.nl)
			}
		}
	}
}

// conc: histories dealt to G goroutines
func runConc(c *ctx, u *universe, scen []histSc, pools, k, g int, r *vh.Rand) {
	type optk struct {
		lazy, dsad bool
		own        string
	}
	for p := 0; p < pools; p++ {
		items := u.pool(r, k, false)
		c.tr.Emit(vh.M{"op": "epoch", "sc": c.sc + 1, "proj": false, "sig": "", "items": itemNames(items)})
		c.st.Pools++
		// sequential baseline: every (input, option set) that occurs
		sc := c.next(items[0].name)
		racerep.Mark(sc)
		c.tr.Emit(vh.M{"op": "sc", "sc": sc, "sig": "", "kind": "baseline"})
		seen := map[optk]bool{}
		for _, s := range scen {
			o := optk{s.Opt.Lazy, s.Opt.Dsad, s.Opt.Own}
			if seen[o] {
				continue
			}
			seen[o] = true
			for i, it := range items {
				res := doCall(it, callerBuf(it.data), o.lazy, o.dsad, o.own, true)
				for _, ev := range callEvent(sc, i+1, it, o.lazy, o.dsad, o.own, "seq", 0, res) {
					c.tr.Emit(ev)
				}
				c.note(it, fmt.Sprint(o), res.nl)
			}
		}
		// concurrent: every goroutine reads the SAME caller buffers
		sc = c.next(items[0].name)
		racerep.Mark(sc)
		c.tr.Emit(vh.M{"op": "sc", "sc": sc, "sig": "", "kind": "concurrent", "g": g})
		shared := make([][]byte, len(items))
		for i, it := range items {
			shared[i] = callerBuf(it.data)
		}
		// a seeded rotation decides which goroutine gets which histories
		off := r.Intn(g)
		evs := make([][]vh.M, g)
		start := make(chan struct{})
		var wg sync.WaitGroup
		for gi := 0; gi < g; gi++ {
			wg.Add(1)
			go func(gi int) {
				defer wg.Done()
				<-start
				for si, s := range scen {
					if (si+off)%g != gi {
						continue
					}
					for _, idx := range s.H {
						i := (idx - 1) % len(items)
						res := doCall(items[i], shared[i], s.Opt.Lazy, s.Opt.Dsad, s.Opt.Own, false)
						ticks.Tick(gi)
						for _, ev := range callEvent(sc, i+1, items[i], s.Opt.Lazy, s.Opt.Dsad, s.Opt.Own, "conc", gi+1, res) {
							ev["_nl"] = res.nl
							evs[gi] = append(evs[gi], ev)
						}
					}
				}
			}(gi)
		}
		close(start)
		wg.Wait()
		intact := make([]bool, len(items))
		for i, it := range items {
			intact[i] = bufIntact(shared[i], it.data)
		}
		for gi := range evs {
			for _, ev := range evs[gi] {
				nl := ev["_nl"].(int)
				delete(ev, "_nl")
				if ev["op"] == "call" {
					ev["intact"] = intact[ev["in"].(int)-1]
					c.note(items[ev["in"].(int)-1], fmt.Sprint(ev["lazy"], ev["dsad"], ev["own"]), nl)
				}
			}
			c.tr.EmitBlock(evs[gi])
		}
	}
}

type readRes struct {
	acc, digest, pmsg, psite string
	n                        int
}

func doRead(p gopacket.Packet, acc string) readRes {
	r := readRes{acc: acc, n: 1}
	msg, site, pn := vh.Guard(func() { r.digest = pdig.Read(p, acc) })
	if pn {
		r.digest, r.pmsg, r.psite = "panic", msg, vh.SiteSig(corpus.Repo(), site)
	}
	return r
}

func readEvent(sc int, it item, own string, r readRes, phase string, g int) vh.M {
	if r.pmsg != "" {
		m := r.pmsg
		if len(m) > 120 {
			m = m[:120]
		}
		return vh.M{"op": "panic", "sc": sc, "name": it.name, "first": it.first.String(), "acc": r.acc, "msg": m, "sig": r.psite, "phase": phase}
	}
	return vh.M{"op": "read", "sc": sc, "pkt": 1, "acc": r.acc, "digest": r.digest, "phase": phase, "g": g, "n": r.n, "sig": r.acc}
}

// share: accessor programs on one shared eager packet
func runShare(c *ctx, u *universe, scen []histSc, g, rounds int, r *vh.Rand) {
	owns := []string{"copy", "nocopy", "pool"}
	for _, s := range scen {
		var it item
		for try := 0; try < 8; try++ {
			it = u.pool(r, 1, r.Intn(10) < 7)[0]
			if len(it.data) > 0 {
				break
			}
		}
		if r.Intn(5) == 0 {
			if h, ok := u.headerOnly(r); ok {
				it = h
				c.st.HeaderOnly++
			}
		}
		own := owns[r.Intn(3)]
		dsad := r.Bool()
		sc := c.next(it.name)
		racerep.Mark(sc)
		c.tr.Emit(vh.M{"op": "epoch", "sc": sc, "proj": false, "sig": ""})
		c.tr.Emit(vh.M{"op": "sc", "sc": sc, "sig": "", "name": it.name, "len": len(it.data), "first": it.first.String(), "own": own, "dsad": dsad, "hex": hexOf(it.data), "progs": s.Progs})
		buf := callerBuf(it.data)
		var p gopacket.Packet
		msg, site, pn := vh.Guard(func() {
			p = gopacket.NewPacket(buf, it.first, decOpts(false, dsad, own))
			pdig.SetNet(p) // one-time, sequential: link the network layer for checksum verification
		})
		if pn {
			c.tr.Emit(vh.M{"op": "panic", "sc": sc, "name": it.name, "first": it.first.String(), "acc": "NewPacket", "msg": msg, "sig": vh.SiteSig(corpus.Repo(), site)})
			continue
		}
		c.st.Own[own]++
		c.tr.Emit(vh.M{"op": "pkt", "sc": sc, "pkt": 1, "own": own, "sig": ""})
		inputDigest := func() string { return pdig.Bytes(buf[:len(it.data)+spare]) }
		c.tr.Emit(vh.M{"op": "read", "sc": sc, "pkt": 1, "acc": "Input", "digest": inputDigest(), "phase": "seq", "g": 0, "n": 1, "sig": "Input"})
		for _, a := range pdig.Accessors {
			c.tr.Emit(readEvent(sc, it, own, doRead(p, a), "seq", 0))
		}
		nl := pdig.NumLayers(p)
		res := make([][]readRes, g)
		start := make(chan struct{})
		var wg sync.WaitGroup
		for gi := 0; gi < g; gi++ {
			wg.Add(1)
			go func(gi int) {
				defer wg.Done()
				prog := s.Progs[gi%len(s.Progs)]
				<-start
				for rd := 0; rd < rounds; rd++ {
					for _, a := range prog {
						x := doRead(p, a)
						ticks.Tick(gi)
						dup := false
						for i := range res[gi] {
							if res[gi][i].acc == x.acc && res[gi][i].digest == x.digest {
								res[gi][i].n++
								dup = true
								break
							}
						}
						if !dup {
							res[gi] = append(res[gi], x)
						}
					}
				}
			}(gi)
		}
		close(start)
		wg.Wait()
		var evs []vh.M
		for gi := range res {
			for _, x := range res[gi] {
				evs = append(evs, readEvent(sc, it, own, x, "conc", gi+1))
				c.st.Reads += x.n
			}
		}
		evs = append(evs, vh.M{"op": "read", "sc": sc, "pkt": 1, "acc": "Input", "digest": inputDigest(), "phase": "conc", "g": 0, "n": 1, "sig": "Input"})
		c.tr.EmitBlock(evs)
		if pp, ok := p.(gopacket.PooledPacket); ok {
			pp.Dispose()
		}
		c.firsts[it.first.String()] = true
		if nl >= 2 {
			a, b := strings.Join(s.Progs[0], ","), strings.Join(s.Progs[len(s.Progs)-1], ",")
			c.nt[a+"|"+b] = true
		}
	}
}

// own (C04 a+b): ownership options must not change the result; a copying packet is isolated from its input
func padTo(d []byte, n int) []byte {
	c := append([]byte(nil), d...)
	for len(c) < n {
		c = append(c, byte(len(c)))
	}
	return c[:n]
}

var padLens = []int{0, 1, 1499, 1500, 1501, 1514, 4000, 9000}

func runOwn(c *ctx, u *universe, scen []histSc, n int, r *vh.Rand) {
	for i := 0; i < n; i++ {
		var it item
		switch i % 3 {
		case 0: // pad fixture around the pool block size
			f := u.fx[r.Intn(len(u.fx))]
			ln := padLens[(i/3)%len(padLens)]
			it = item{name: fmt.Sprintf("%s~pad%d", f.Name, ln), data: padTo(f.Data, ln), first: f.First}
		case 1: // ordinary fixture
			f := u.fx[r.Intn(len(u.fx))]
			it = item{name: f.Name, data: f.Data, first: f.First}
		default:
			it = u.pool(r, 1, false)[0]
		}
		s := scen[r.Intn(len(scen))]
		sc := c.next(it.name)
		c.tr.Emit(vh.M{"op": "epoch", "sc": sc, "proj": true, "sig": "", "items": itemNames([]item{it})})
		c.tr.Emit(vh.M{"op": "sc", "sc": sc, "sig": "", "name": it.name, "len": len(it.data), "hex": hexOf(it.data), "steps": s.Steps})
		lk := fmt.Sprint(len(it.data))
		if len(it.data) > 1501 && len(it.data) != 1514 && len(it.data) != 4000 && len(it.data) != 9000 {
			lk = "other>1501"
		} else if len(it.data) > 1 && len(it.data) < 1499 {
			lk = "other<1499"
		}
		c.st.Lens[lk]++
		for _, st := range s.Steps {
			own := st[1]
			switch st[0] {
			case "call":
				res := doCall(it, callerBuf(it.data), s.Opt.Lazy, s.Opt.Dsad, own, true)
				for _, ev := range callEvent(sc, 1, it, s.Opt.Lazy, s.Opt.Dsad, own, "seq", 0, res) {
					c.tr.Emit(ev)
				}
				c.note(it, fmt.Sprint(s.Opt.Lazy, s.Opt.Dsad, own), res.nl)
				c.st.Own[own]++
			case "mutate":
				buf := callerBuf(it.data)
				var p gopacket.Packet
				msg, site, pn := vh.Guard(func() { p = gopacket.NewPacket(buf, it.first, decOpts(s.Opt.Lazy, s.Opt.Dsad, own)) })
				if pn {
					c.tr.Emit(vh.M{"op": "panic", "sc": sc, "name": it.name, "first": it.first.String(), "acc": "NewPacket", "msg": msg, "sig": vh.SiteSig(corpus.Repo(), site)})
					continue
				}
				c.tr.Emit(vh.M{"op": "pkt", "sc": sc, "pkt": 1, "own": own, "sig": ""})
				c.tr.Emit(readEvent(sc, it, own, doRead(p, "All"), "seq", 0))
				for j := range buf { // the caller reuses its buffer
					buf[j] ^= 0xff
				}
				c.tr.Emit(vh.M{"op": "mutate", "sc": sc, "pkt": 1, "own": own, "sig": "mutate"})
				c.tr.Emit(readEvent(sc, it, own, doRead(p, "All"), "seq", 0))
				c.st.Reads += 2
				if pp, ok := p.(gopacket.PooledPacket); ok {
					pp.Dispose()
				}
			}
		}
	}
}

func main() {
	phase := flag.String("phase", "hist", "hist | conc | share | own")
	scenarios := flag.String("scenarios", "", "ndjson of behaviours exported by TLC (PureGen.tla)")
	trace := flag.String("trace", "trace.ndjson", "output trace")
	seed := flag.Uint64("seed", 1, "seed")
	pools := flag.Int("pools", 10, "input pools (hist, conc) / inputs (own)")
	k := flag.Int("k", 4, "inputs per pool (K of PureGen.cfg)")
	g := flag.Int("g", 8, "goroutines")
	rounds := flag.Int("rounds", 2, "repetitions of each thread program (share)")
	child := flag.Bool("child", false, "internal: run the phase in this process")
	flag.Parse()

	concurrent := *phase == "conc" || *phase == "share"
	if concurrent && !*child {
		// parent: run the phase in a child, convert its race reports
		var args []string
		flag.Visit(func(f *flag.Flag) { args = append(args, "-"+f.Name+"="+f.Value.String()) })
		res := racerep.RunChild(args)
		var st stats
		lines := strings.Split(strings.TrimSpace(res.Stdout), "\n")
		if err := json.Unmarshal([]byte(lines[len(lines)-1]), &st); err != nil {
			st.Crash = "no statistics from child: " + racerep.CrashSig(res)
		}
		st.Race = raceEnabled // parent and child are the same binary (a crashed child reports nothing)
		evs := racerep.Events(res.Reports, vh.M{"phase": *phase}, "sc")
		if res.ExitCode != 0 && res.ExitCode != 3 {
			st.Crash = racerep.CrashSig(res)
			evs = append(evs, vh.M{"op": "sc", "sc": st.Scenarios, "sig": ""}, vh.M{"op": "crash", "sc": st.Scenarios, "sig": st.Crash, "tail": res.Tail})
		}
		f, err := os.OpenFile(*trace, os.O_APPEND|os.O_WRONLY|os.O_CREATE, 0644)
		if err != nil {
			vh.Fatal(err)
		}
		for _, e := range evs {
			b, _ := json.Marshal(e)
			f.Write(append(b, '\n'))
		}
		f.Close()
		st.Races = len(res.Reports)
		st.Events += len(evs)
		b, _ := json.Marshal(st)
		fmt.Println(string(b))
		if res.ExitCode == 3 {
			os.Exit(3)
		}
		return
	}

	u := loadUniverse()
	tr := vh.NewTrace(*trace)
	c := &ctx{tr: tr, nt: map[string]bool{}, firsts: map[string]bool{}}
	c.st.Own = map[string]int{}
	c.st.Lens = map[string]int{}
	c.st.Race = raceEnabled
	go watchdog(tr, 30)
	r := vh.NewRand(*seed)
	switch *phase {
	case "hist":
		runHist(c, u, readScenarios(*scenarios, "hist"), *pools, *k, r)
	case "conc":
		runConc(c, u, readScenarios(*scenarios, "hist"), *pools, *k, *g, r)
	case "share":
		runShare(c, u, readScenarios(*scenarios, "share"), *g, *rounds, r)
	case "own":
		runOwn(c, u, readScenarios(*scenarios, "own"), *pools, r)
	default:
		vh.Fatal("unknown phase", *phase)
	}
	tr.Close()
	c.st.Scenarios, c.st.Events, c.st.Nontrivial, c.st.Firsts = c.sc, tr.N, len(c.nt), len(c.firsts)
	b, _ := json.Marshal(c.st)
	fmt.Println(string(b))
}
