// pool: runs NewPacket(Pool: true) / PooledPacket.Dispose on real goroutines in the per-thread operation
// orders exported by TLC from Pool.tla (PoolMC), plus seeded random orders beyond the model's bound and an
// unsynchronised stress loop, and records what the property part of Pool.tla judges (C04 c):
//
//	got(seq, pkt, block, len, pooled, same)   after NewPacket returned; block = dense id of the address of the
//	                                          backing array of Data(); same = Data() equals the input
//	disposing(seq, pkt, canary)               BEFORE Dispose is called; canary = Data() still equals the input
//	release(seq, pkt, canary)                 the caller drops a packet that is not a PooledPacket
//
// seq is one atomic counter per scenario, so [got.seq, disposing.seq] lies inside the true live interval.
// The process re-executes itself as a child; race reports of the -race build become "race" events.
package main

import (
	"bufio"
	"bytes"
	"encoding/json"
	"flag"
	"fmt"
	"os"
	"runtime"
	"sort"
	"strconv"
	"strings"
	"sync"
	"sync/atomic"
	"time"
	"unsafe"

	"github.com/gopacket/gopacket"
	"verif/harness/corpus"
	"verif/harness/racerep"
	"verif/harness/vh"
)

type scen struct {
	Orders [][][]interface{} `json:"orders"` // thread -> op -> ["N"|"D", i]
	Big    []int             `json:"big"`    // packet ids longer than a pool block
	T      int               `json:"t"`
	P      int               `json:"p"`
}

type op struct {
	new bool
	i   int
}

type rec struct {
	seq    int64
	kind   string
	pkt    int
	addr   uintptr
	ln     int
	pooled bool
	ok     bool
	lazy   bool
	pmsg   string
	psite  string
}

var smallLens = []int{0, 1, 14, 60, 577, 1400, 1499, 1500}
var bigLens = []int{1501, 1514, 4000, 9000}

var progress atomic.Int64
var ticks racerep.Ticks // progress inside the stress loop, per goroutine (no shared atomic between workers)

func watchdog(tr *vh.Trace) {
	last, stuck := int64(-1), 0
	lastTick := int64(-1)
	for {
		time.Sleep(time.Second)
		cur := progress.Load()
		if tk := ticks.Sum(); cur == last && tk != lastTick {
			lastTick, stuck = tk, 0
			continue
		}
		if cur == last {
			stuck++
		} else {
			last, stuck = cur, 0
		}
		if stuck >= 30 && cur > 0 {
			tr.Emit(vh.M{"op": "pstart", "sc": int(cur), "sig": ""})
			tr.Emit(vh.M{"op": "hang", "sc": int(cur), "sig": "hang"})
			tr.Close()
			fmt.Printf("{\"scenarios\":%d,\"events\":%d,\"hang\":true}\n", cur, tr.N)
			os.Exit(3)
		}
	}
}

// input: a real fixture padded / cut to n bytes, made unique by a tag in its tail
func input(fx []corpus.Fixture, r *vh.Rand, n int, tag uint64) ([]byte, gopacket.LayerType) {
	f := fx[r.Intn(len(fx))]
	d := make([]byte, n)
	copy(d, f.Data)
	for i := len(f.Data); i < n; i++ {
		d[i] = byte(i)
	}
	for k := 0; k < 8 && k < n; k++ {
		d[n-1-k] = byte(tag >> (8 * uint(k)))
	}
	return d, f.First
}

type addrIDs struct{ m map[uintptr]int }

func (a *addrIDs) id(p uintptr) int {
	if v, ok := a.m[p]; ok {
		return v
	}
	v := len(a.m) + 1
	a.m[p] = v
	return v
}

type stats struct {
	Scenarios int            `json:"scenarios"`
	Events    int            `json:"events"`
	News      int            `json:"news"`
	Disposes  int            `json:"disposes"`
	Reused    int            `json:"block_reuses"`
	Blocks    int            `json:"distinct_blocks"`
	Overlap   int            `json:"scenarios_with_concurrent_live_packets"`
	Shapes    int            `json:"distinct_shapes"`
	StressOps int            `json:"stress_ops"`
	ChurnOps  int            `json:"churn_ops"`
	ChurnChk  int            `json:"churn_canary_checks"`
	ChurnFail int            `json:"churn_canary_failures"`
	ChurnLive int            `json:"churn_max_live_per_goroutine"`
	ChurnLog  int            `json:"churn_sampled_events"`
	ChurnRuns []string       `json:"churn_runs,omitempty"`
	Race      bool           `json:"race_enabled"`
	Races     int            `json:"races"`
	Crash     string         `json:"crash,omitempty"`
	Lens      map[string]int `json:"lens,omitempty"`
}

// runScenario: one run of the per-thread orders on real goroutines
func runScenario(tr *vh.Trace, st *stats, ids *addrIDs, fx []corpus.Fixture, r *vh.Rand, sc int, orders [][]op, big map[int]bool, npk int, src string, shapes map[string]bool) {
	progress.Store(int64(sc))
	racerep.Mark(sc)
	T := len(orders)
	// inputs prepared up front (single-threaded PRNG)
	type pin struct {
		data  []byte
		first gopacket.LayerType
		lazy  bool
	}
	ins := map[int]pin{}
	for t := 0; t < T; t++ {
		for _, o := range orders[t] {
			if !o.new {
				continue
			}
			pid := t*npk + o.i
			n := smallLens[r.Intn(len(smallLens))]
			if big[pid] {
				n = bigLens[r.Intn(len(bigLens))]
			}
			d, first := input(fx, r, n, uint64(sc)<<16|uint64(pid))
			ins[pid] = pin{d, first, r.Intn(4) == 0}
			st.Lens[fmt.Sprint(n)]++
		}
	}
	var seq atomic.Int64
	recs := make([][]rec, T)
	start := make(chan struct{})
	var wg sync.WaitGroup
	for t := 0; t < T; t++ {
		wg.Add(1)
		go func(t int) {
			defer wg.Done()
			held := map[int]gopacket.Packet{}
			<-start
			for _, o := range orders[t] {
				pid := t*npk + o.i
				in := ins[pid]
				if o.new {
					var p gopacket.Packet
					msg, site, pn := vh.Guard(func() {
						p = gopacket.NewPacket(in.data, in.first, gopacket.DecodeOptions{Pool: true, Lazy: in.lazy})
					})
					if pn {
						recs[t] = append(recs[t], rec{seq: seq.Add(1), kind: "panic", pkt: pid, pmsg: msg, psite: site})
						continue
					}
					held[pid] = p
					d := p.Data()
					_, pooled := p.(gopacket.PooledPacket)
					x := rec{kind: "got", pkt: pid, addr: uintptr(unsafe.Pointer(unsafe.SliceData(d))), ln: len(d), pooled: pooled, lazy: in.lazy,
						ok: bytes.Equal(d, in.data)}
					x.seq = seq.Add(1) // AFTER NewPacket returned
					recs[t] = append(recs[t], x)
				} else {
					p := held[pid]
					if p == nil {
						continue
					}
					x := rec{pkt: pid, ok: bytes.Equal(p.Data(), in.data)} // canary right before the packet's own Dispose
					if pp, ok := p.(gopacket.PooledPacket); ok {
						x.kind = "disposing"
						x.seq = seq.Add(1) // BEFORE Dispose is called
						recs[t] = append(recs[t], x)
						pp.Dispose()
					} else {
						x.kind = "release"
						x.seq = seq.Add(1)
						recs[t] = append(recs[t], x)
					}
					delete(held, pid)
				}
			}
		}(t)
	}
	close(start)
	wg.Wait()
	var all []rec
	for _, rs := range recs {
		all = append(all, rs...)
	}
	sort.Slice(all, func(i, j int) bool { return all[i].seq < all[j].seq })
	evs := []vh.M{{"op": "pstart", "sc": sc, "sig": "", "threads": T, "pkts": npk, "src": src}}
	var lens, unpooled []int
	live := 0
	overlap := false
	seenBlock := map[int]bool{}
	shape := ""
	for _, x := range all {
		switch x.kind {
		case "got":
			b := ids.id(x.addr)
			if seenBlock[b] {
				st.Reused++
			}
			seenBlock[b] = true
			live++
			if live >= 2 {
				overlap = true
			}
			st.News++
			shape += fmt.Sprintf("g%d", x.pkt)
			// slim (TLC parses every field); lengths / pooled / lazy are summarised in the pstart event
			evs = append(evs, vh.M{"op": "got", "sc": sc, "seq": int(x.seq), "pkt": x.pkt, "block": b, "same": x.ok, "sig": "got"})
			lens = append(lens, x.ln)
			if !x.pooled {
				unpooled = append(unpooled, x.pkt)
			}
		case "disposing", "release":
			live--
			st.Disposes++
			shape += fmt.Sprintf("d%d", x.pkt)
			evs = append(evs, vh.M{"op": x.kind, "sc": sc, "seq": int(x.seq), "pkt": x.pkt, "canary": x.ok, "sig": x.kind})
		case "panic":
			m := x.pmsg
			if len(m) > 120 {
				m = m[:120]
			}
			evs = append(evs, vh.M{"op": "panic", "sc": sc, "pkt": x.pkt, "msg": m, "sig": vh.SiteSig(corpus.Repo(), x.psite)})
		}
	}
	if overlap {
		st.Overlap++
	}
	shapes[shape] = true
	evs[0]["lens"] = lens
	evs[0]["unpooled"] = unpooled
	tr.EmitBlock(evs)
}

// stress: no logging, no shared atomics - only what the race detector and the content canaries see
func runStress(tr *vh.Trace, st *stats, fx []corpus.Fixture, seed uint64, sc, g, n int) {
	progress.Store(int64(sc))
	racerep.Mark(sc)
	type res struct {
		ops  int
		ok   bool
		pmsg string
		site string
	}
	out := make([]res, g)
	start := make(chan struct{})
	var wg sync.WaitGroup
	for gi := 0; gi < g; gi++ {
		wg.Add(1)
		go func(gi int) {
			defer wg.Done()
			r := vh.NewRand(seed*977 + uint64(gi))
			out[gi].ok = true
			type hp struct {
				p  gopacket.Packet
				in []byte
			}
			var held []hp
			<-start
			msg, site, pn := vh.Guard(func() {
				for i := 0; i < n; i++ {
					ln := smallLens[r.Intn(len(smallLens))]
					if r.Intn(8) == 0 {
						ln = bigLens[r.Intn(len(bigLens))]
					}
					d, first := input(fx, r, ln, uint64(gi)<<32|uint64(i))
					p := gopacket.NewPacket(d, first, gopacket.DecodeOptions{Pool: true, Lazy: r.Intn(4) == 0})
					if !bytes.Equal(p.Data(), d) {
						out[gi].ok = false
					}
					held = append(held, hp{p, d})
					out[gi].ops++
					if i&63 == 0 {
						ticks.Tick(gi)
					}
					for len(held) > r.Intn(3) {
						k := r.Intn(len(held))
						h := held[k]
						held = append(held[:k], held[k+1:]...)
						if !bytes.Equal(h.p.Data(), h.in) {
							out[gi].ok = false
						}
						if pp, ok := h.p.(gopacket.PooledPacket); ok {
							pp.Dispose()
						}
						out[gi].ops++
					}
				}
			})
			if pn {
				out[gi].pmsg, out[gi].site = msg, site
			}
		}(gi)
	}
	close(start)
	wg.Wait()
	evs := []vh.M{{"op": "pstart", "sc": sc, "sig": "", "threads": g, "pkts": n, "src": "stress"}}
	for gi, o := range out {
		st.StressOps += o.ops
		if o.pmsg != "" {
			evs = append(evs, vh.M{"op": "panic", "sc": sc, "pkt": 0, "msg": o.pmsg, "sig": vh.SiteSig(corpus.Repo(), o.site)})
			continue
		}
		evs = append(evs, vh.M{"op": "stress", "sc": sc, "g": gi + 1, "ops": o.ops, "canary": o.ok, "sig": "stress"})
	}
	tr.EmitBlock(evs)
}

// churn: many goroutines (>= 4 x GOMAXPROCS), each holding 1..6 live pooled packets of different lengths at once,
// re-checking the content canary of ALL its live packets again and again (not only before its own Dispose) and
// disposing several packets back to back, for a time budget.  Only a bounded sample of packets is logged with
// got / disposing events (block ids, atomic sequence numbers: NoAlias holds for any subset of the live packets, so
// judging a sample is sound); every canary failure is an event of its own.  Unsampled packets touch no shared
// variable of the harness, so the race detector sees the library's synchronisation only.
func runChurn(tr *vh.Trace, st *stats, ids *addrIDs, fx []corpus.Fixture, seed uint64, sc, g int, budget time.Duration, quota int, procs int) {
	progress.Store(int64(sc))
	racerep.Mark(sc)
	prev := runtime.GOMAXPROCS(0)
	if procs > 0 {
		runtime.GOMAXPROCS(procs)
	}
	defer runtime.GOMAXPROCS(prev)
	lens := []int{1, 14, 60, 200, 577, 1000, 1400, 1499, 1500}
	type fail struct {
		pkt  int
		when string
	}
	type res struct {
		ops, checks, maxLive int
		recs                 []rec
		fails                []fail
		pmsg, site           string
	}
	out := make([]res, g)
	var seq atomic.Int64
	start := make(chan struct{})
	var wg sync.WaitGroup
	for gi := 0; gi < g; gi++ {
		wg.Add(1)
		go func(gi int) {
			defer wg.Done()
			o := &out[gi]
			r := vh.NewRand(seed*7919 + uint64(gi)*131 + uint64(sc))
			type hp struct {
				p       gopacket.Packet
				in      []byte
				pid     int
				sampled bool
			}
			var held []hp
			n := 0
			check := func(h hp, when string) {
				o.checks++
				if !bytes.Equal(h.p.Data(), h.in) && len(o.fails) < 50 {
					o.fails = append(o.fails, fail{h.pid, when})
				}
			}
			dispose := func(k int) {
				h := held[k]
				held = append(held[:k], held[k+1:]...)
				check(h, "before-own-dispose")
				if h.sampled {
					o.recs = append(o.recs, rec{kind: "disposing", pkt: h.pid, ok: bytes.Equal(h.p.Data(), h.in), seq: seq.Add(1)})
				}
				if pp, ok := h.p.(gopacket.PooledPacket); ok {
					pp.Dispose()
				}
				o.ops++
			}
			<-start
			now := time.Now()
			deadline := now.Add(budget)
			slot, nextSample, nsampled := budget/time.Duration(quota), now, 0 // samples are spread over the whole run
			msg, site, pn := vh.Guard(func() {
				for ; now.Before(deadline); now = time.Now() {
					ticks.Tick(gi)
					target := 1 + r.Intn(6)
					for len(held) < target {
						n++
						pid := gi*1000000 + n
						d, first := input(fx, r, lens[r.Intn(len(lens))], uint64(sc)<<40|uint64(pid))
						p := gopacket.NewPacket(d, first, gopacket.DecodeOptions{Pool: true, Lazy: r.Intn(4) == 0})
						h := hp{p: p, in: d, pid: pid}
						if nsampled < quota && !now.Before(nextSample) {
							h.sampled = true
							nsampled++
							nextSample = now.Add(slot)
							dd := p.Data()
							o.recs = append(o.recs, rec{kind: "got", pkt: pid, addr: uintptr(unsafe.Pointer(unsafe.SliceData(dd))), ok: bytes.Equal(dd, d), seq: seq.Add(1)})
						}
						check(h, "after-newpacket")
						held = append(held, h)
						o.ops++
					}
					if len(held) > o.maxLive {
						o.maxLive = len(held)
					}
					for rounds := 1 + r.Intn(4); rounds > 0; rounds-- {
						for _, h := range held {
							check(h, "while-live")
						}
						if r.Intn(3) == 0 {
							runtime.Gosched()
						}
					}
					for k := 1 + r.Intn(len(held)); k > 0 && len(held) > 0; k-- { // several Disposes back to back
						dispose(r.Intn(len(held)))
					}
					for _, h := range held {
						check(h, "after-other-dispose")
					}
				}
				for len(held) > 0 {
					dispose(len(held) - 1)
				}
			})
			if pn {
				o.pmsg, o.site = msg, site
			}
		}(gi)
	}
	close(start)
	wg.Wait()
	src := "churn-procs" + strconv.Itoa(runtime.GOMAXPROCS(0))
	evs := []vh.M{{"op": "pstart", "sc": sc, "sig": "", "threads": g, "pkts": 0, "src": src, "budget_ms": int(budget / time.Millisecond)}}
	var all []rec
	ops, checks, nfail := 0, 0, 0
	for gi := range out {
		o := &out[gi]
		all = append(all, o.recs...)
		ops += o.ops
		checks += o.checks
		if o.maxLive > st.ChurnLive {
			st.ChurnLive = o.maxLive
		}
	}
	sort.Slice(all, func(i, j int) bool { return all[i].seq < all[j].seq })
	for _, x := range all {
		if x.kind == "got" {
			evs = append(evs, vh.M{"op": "got", "sc": sc, "seq": int(x.seq), "pkt": x.pkt, "block": ids.id(x.addr), "same": x.ok, "sig": "got"})
		} else {
			evs = append(evs, vh.M{"op": "disposing", "sc": sc, "seq": int(x.seq), "pkt": x.pkt, "canary": x.ok, "sig": "disposing"})
		}
	}
	st.ChurnLog += len(all)
	// every canary failure is an event; the scenario marker in front of each lets the trace module look at all of them
	for gi := range out {
		o := &out[gi]
		if o.pmsg != "" {
			evs = append(evs, vh.M{"op": "pstart", "sc": sc, "sig": "", "src": src}, vh.M{"op": "panic", "sc": sc, "pkt": 0, "msg": o.pmsg, "sig": vh.SiteSig(corpus.Repo(), o.site)})
		}
		for _, f := range o.fails {
			nfail++
			evs = append(evs, vh.M{"op": "pstart", "sc": sc, "sig": "", "src": src},
				vh.M{"op": "stress", "sc": sc, "g": gi + 1, "pkt": f.pkt, "ops": 0, "canary": false, "sig": "churn-" + f.when})
		}
	}
	evs = append(evs, vh.M{"op": "pstart", "sc": sc, "sig": "", "src": src},
		vh.M{"op": "stress", "sc": sc, "g": 0, "pkt": 0, "ops": ops, "canary": true, "sig": "churn-summary", "checks": checks, "goroutines": g, "failures": nfail})
	st.ChurnOps += ops
	st.ChurnChk += checks
	st.ChurnFail += nfail
	st.ChurnRuns = append(st.ChurnRuns, fmt.Sprintf("%s: %d goroutines, %d ops, %d canary checks, %d failures", src, g, ops, checks, nfail))
	tr.EmitBlock(evs)
}

func parseOrders(s scen) ([][]op, map[int]bool) {
	var out [][]op
	for _, th := range s.Orders {
		var ops []op
		for _, o := range th {
			k, _ := o[0].(string)
			i, _ := o[1].(float64)
			ops = append(ops, op{new: k == "N", i: int(i)})
		}
		out = append(out, ops)
	}
	big := map[int]bool{}
	for _, b := range s.Big {
		big[b] = true // model packet ids are (t-1)*P + i with t from 1: the same numbers as t*npk + o.i with t from 0
	}
	return out, big
}

func randomOrders(r *vh.Rand, T, P int) ([][]op, map[int]bool) {
	var out [][]op
	big := map[int]bool{}
	for t := 0; t < T; t++ {
		var ops []op
		var open []int
		next := 1
		for next <= P || len(open) > 0 {
			if next <= P && (len(open) == 0 || (len(open) < 3 && r.Bool())) {
				ops = append(ops, op{true, next})
				open = append(open, next)
				if r.Intn(8) == 0 {
					big[t*P+next] = true
				}
				next++
			} else {
				k := r.Intn(len(open))
				ops = append(ops, op{false, open[k]})
				open = append(open[:k], open[k+1:]...)
			}
		}
		out = append(out, ops)
	}
	return out, big
}

func main() {
	scenarios := flag.String("scenarios", "", "ndjson of per-thread orders exported by TLC (PoolMC)")
	trace := flag.String("trace", "trace.ndjson", "output trace")
	seed := flag.Uint64("seed", 1, "seed")
	reps := flag.Int("reps", 20, "runs of every exported scenario (each samples one schedule)")
	nrand := flag.Int("rand", 0, "seeded random scenarios beyond the model's bound (8 threads x 4 packets)")
	stress := flag.Int("stress", 0, "iterations per goroutine of the unlogged stress loop")
	g := flag.Int("g", 8, "goroutines (random scenarios, stress)")
	churn := flag.Int("churn", 0, "time budget in ms of each churn run (many goroutines holding several live pooled packets)")
	churnG := flag.Int("churng", 0, "goroutines of a churn run (default: max(64, 4 x NumCPU))")
	procsList := flag.String("procs", "2,0", "GOMAXPROCS settings for the churn runs (0 = NumCPU)")
	child := flag.Bool("child", false, "internal")
	flag.Parse()

	if !*child {
		var args []string
		flag.Visit(func(f *flag.Flag) { args = append(args, "-"+f.Name+"="+f.Value.String()) })
		res := racerep.RunChild(args)
		var st stats
		lines := strings.Split(strings.TrimSpace(res.Stdout), "\n")
		if err := json.Unmarshal([]byte(lines[len(lines)-1]), &st); err != nil {
			st.Crash = "no statistics from child: " + racerep.CrashSig(res)
		}
		st.Race = raceEnabled // parent and child are the same binary (a crashed child reports nothing)
		evs := racerep.Events(res.Reports, vh.M{}, "pstart")
		if res.ExitCode != 0 && res.ExitCode != 3 {
			st.Crash = racerep.CrashSig(res)
			evs = append(evs, vh.M{"op": "pstart", "sc": st.Scenarios, "sig": ""}, vh.M{"op": "crash", "sc": st.Scenarios, "sig": st.Crash, "tail": res.Tail})
		}
		f, err := os.OpenFile(*trace, os.O_APPEND|os.O_WRONLY|os.O_CREATE, 0644)
		if err != nil {
			vh.Fatal(err)
		}
		for _, e := range evs {
			b, _ := json.Marshal(e)
			f.Write(append(b, '\n'))
		}
		f.Close()
		st.Races = len(res.Reports)
		st.Events += len(evs)
		b, _ := json.Marshal(st)
		fmt.Println(string(b))
		if res.ExitCode == 3 {
			os.Exit(3)
		}
		return
	}

	fx := corpus.Load()
	tr := vh.NewTrace(*trace)
	st := &stats{Lens: map[string]int{}, Race: raceEnabled}
	ids := &addrIDs{m: map[uintptr]int{}}
	shapes := map[string]bool{}
	go watchdog(tr)
	r := vh.NewRand(*seed)
	sc := 0
	if *scenarios != "" {
		f, err := os.Open(*scenarios)
		if err != nil {
			vh.Fatal(err)
		}
		rd := bufio.NewScanner(f)
		rd.Buffer(make([]byte, 1<<20), 1<<24)
		for rd.Scan() {
			if len(bytes.TrimSpace(rd.Bytes())) == 0 {
				continue
			}
			var s scen
			if err := json.Unmarshal(rd.Bytes(), &s); err != nil {
				vh.Fatal("bad scenario:", err)
			}
			orders, big := parseOrders(s)
			for k := 0; k < *reps; k++ {
				sc++
				runScenario(tr, st, ids, fx, r, sc, orders, big, s.P, "tlc", shapes)
			}
		}
		f.Close()
	}
	for i := 0; i < *nrand; i++ {
		sc++
		orders, big := randomOrders(r, *g, 4)
		runScenario(tr, st, ids, fx, r, sc, orders, big, 4, "random", shapes)
	}
	if *stress > 0 {
		sc++
		runStress(tr, st, fx, *seed, sc, *g, *stress)
	}
	if *churn > 0 {
		cg := *churnG
		if cg <= 0 {
			cg = 4 * runtime.NumCPU()
			if cg < 64 {
				cg = 64
			}
		}
		for _, ps := range strings.Split(*procsList, ",") {
			pv, err := strconv.Atoi(strings.TrimSpace(ps))
			if err != nil {
				vh.Fatal("bad -procs:", *procsList)
			}
			if pv <= 0 {
				pv = runtime.NumCPU()
			}
			sc++
			runChurn(tr, st, ids, fx, *seed, sc, cg, time.Duration(*churn)*time.Millisecond, 10, pv)
		}
	}
	tr.Close()
	st.Scenarios, st.Events, st.Blocks, st.Shapes = sc, tr.N, len(ids.m), len(shapes)
	b, _ := json.Marshal(st)
	fmt.Println(string(b))
}
