package main

// Inputs for the real-layer parts: every fixture of the repository's own tests, entered at each layer of
// the common stack it contains (so that IPv4/IPv6/TCP/UDP/DNS are reached under any link type), plus
// structural mutations: the generic and layer-aware ones of harness/corpus and option-list splices
// (IPv4 options / TCP options inserted behind the fixed header with the length fields adjusted), which
// produce the list-valued and optional fields that a reused layer object may fail to reset.

import (
	"fmt"
	"reflect"
	"sort"
	"strings"

	"github.com/gopacket/gopacket"
	"github.com/gopacket/gopacket/layers"
	"verif/harness/corpus"
	"verif/harness/vh"
)

var coreNames = []string{"Ethernet", "Dot1Q", "IPv4", "IPv6", "TCP", "UDP", "DNS", "Payload"}
var coreTypes = []gopacket.LayerType{layers.LayerTypeEthernet, layers.LayerTypeDot1Q, layers.LayerTypeIPv4, layers.LayerTypeIPv6,
	layers.LayerTypeTCP, layers.LayerTypeUDP, layers.LayerTypeDNS, gopacket.LayerTypePayload}

func coreIndex(t gopacket.LayerType) int {
	for i, c := range coreTypes {
		if c == t {
			return i
		}
	}
	return -1
}

type input struct {
	name  string
	first gopacket.LayerType
	data  []byte
}

func safePacket(data []byte, first gopacket.LayerType, nocopy bool) (p gopacket.Packet) {
	defer func() {
		if recover() != nil {
			p = nil
		}
	}()
	p = gopacket.NewPacket(data, first, gopacket.DecodeOptions{NoCopy: nocopy, DecodeStreamsAsDatagrams: true})
	p.Layers()
	return p
}

// baseInputs: every fixture entered at each of its core-stack layers (deduplicated, deterministic order).
func baseInputs() []input {
	var out []input
	seen := map[string]bool{}
	add := func(in input) {
		k := in.first.String() + "|" + string(in.data)
		if len(in.data) == 0 || seen[k] {
			return
		}
		seen[k] = true
		out = append(out, in)
	}
	for _, f := range corpus.Load() {
		if len(f.Data) > 9000 {
			continue
		}
		p := safePacket(f.Data, f.First, false)
		if p == nil {
			continue
		}
		if coreIndex(f.First) >= 0 {
			add(input{f.Name, f.First, f.Data})
		}
		ls := p.Layers()
		for j := 1; j < len(ls); j++ {
			t := ls[j].LayerType()
			if ci := coreIndex(t); ci >= 0 && ci != 7 {
				if _, isHBH := ls[j-1].(*layers.IPv6HopByHop); isHBH {
					continue // its payload is not what the IPv6 layer hands on
				}
				add(input{fmt.Sprintf("%s@%d", f.Name, j), t, append([]byte(nil), ls[j-1].LayerPayload()...)})
			}
		}
	}
	return out
}

// locate returns the offset of the first layer of type t inside in.data (-1 if absent) and the offsets of
// the enclosing IPv4 / IPv6 headers (or -1).
func locate(in input, t gopacket.LayerType) (off, ip4, ip6 int) {
	off, ip4, ip6 = -1, -1, -1
	data := make([]byte, len(in.data)) // cap == len: offsets below are capacity differences
	copy(data, in.data)
	p := safePacket(data, in.first, true)
	if p == nil {
		return
	}
	for _, l := range p.Layers() {
		c := l.LayerContents()
		if len(c) == 0 || cap(c) > cap(data) {
			continue
		}
		o := cap(data) - cap(c)
		if o < 0 || o+len(c) > len(data) {
			continue
		}
		switch l.LayerType() {
		case layers.LayerTypeIPv4:
			if off < 0 {
				ip4 = o
			}
		case layers.LayerTypeIPv6:
			if off < 0 {
				ip6 = o
			}
		}
		if l.LayerType() == t && off < 0 {
			off = o
			if t == layers.LayerTypeIPv4 {
				ip4 = -1
			}
		}
	}
	return
}

var ip4Words = [][]byte{
	{0, 0, 0, 0}, {0, 0xaa, 0xbb, 0xcc}, {1, 1, 1, 1}, {1, 1, 0, 0x55}, {1, 0, 9, 9},
	{7, 4, 4, 0}, {0x94, 4, 0, 0}, {0x44, 4, 5, 0}, {7, 3, 4, 0}, {1, 7, 3, 4},
	{7, 2, 0, 0}, {7, 9, 0, 0}, {0x83, 1, 0, 0},
}

var tcpWords = [][]byte{
	{0, 0, 0, 0}, {0, 0x11, 0x22, 0x33}, {1, 1, 1, 1}, {1, 1, 0, 0x77}, {1, 0, 5, 5},
	{2, 4, 5, 0xb4}, {4, 2, 1, 1}, {3, 3, 7, 1}, {1, 3, 3, 2},
	{30, 4, 0x00, 0x81}, // MP_CAPABLE (SYN)
	{30, 3, 0x50, 1},    // MP_PRIO + NOP
	{30, 4, 0x51, 7},    // MP_PRIO with address id
	{30, 4, 0x40, 9},    // REMOVE_ADDR
	{30, 4, 0x20, 0x00}, // DSS without fields
	{30, 2, 0, 0}, {30, 9, 0, 0}, {2, 0, 0, 0}, {8, 1, 0, 0}, {5, 2, 1, 1}, {254, 4, 0xf9, 0x89},
}

// splice inserts w option words behind the fixed header of the first IPv4 / TCP layer and adjusts the
// header-length and total-length fields.  Returns nil if not applicable.
func splice(r *vh.Rand, in input) ([]byte, string) {
	tcpFirst := r.Intn(3) != 0
	t := layers.LayerTypeIPv4
	if tcpFirst {
		t = layers.LayerTypeTCP
	}
	off, ip4, ip6 := locate(in, t)
	if off < 0 {
		if tcpFirst {
			t = layers.LayerTypeIPv4
		} else {
			t = layers.LayerTypeTCP
		}
		off, ip4, ip6 = locate(in, t)
	}
	if off < 0 || off+20 > len(in.data) {
		return nil, ""
	}
	d := in.data
	var hl int
	var words [][]byte
	if t == layers.LayerTypeIPv4 {
		hl = int(d[off] & 0x0f)
		words = ip4Words
	} else {
		hl = int(d[off+12] >> 4)
		words = tcpWords
	}
	if hl < 5 || hl >= 15 {
		return nil, ""
	}
	w := 1 + r.Intn(min(3, 15-hl))
	var ins []byte
	var desc []string
	for i := 0; i < w; i++ {
		k := r.Intn(len(words))
		ins = append(ins, words[k]...)
		desc = append(desc, fmt.Sprint(k))
	}
	pos := off + 20
	if r.Intn(4) == 0 && off+hl*4 <= len(d) {
		pos = off + hl*4 // behind the existing options
	}
	out := append([]byte(nil), d[:pos]...)
	out = append(out, ins...)
	out = append(out, d[pos:]...)
	bump16 := func(at, by int) {
		if at >= 0 && at+2 <= len(out) {
			v := int(out[at])<<8 | int(out[at+1])
			if v != 0 {
				v += by
				out[at], out[at+1] = byte(v>>8), byte(v)
			}
		}
	}
	if t == layers.LayerTypeIPv4 {
		out[off] = out[off]&0xf0 | byte(hl+w)
		bump16(off+2, 4*w)
	} else {
		out[off+12] = byte(hl+w)<<4 | out[off+12]&0x0f
		if ip4 >= 0 {
			bump16(ip4+2, 4*w)
		}
		if ip6 >= 0 {
			bump16(ip6+4, 4*w)
		}
	}
	return out, t.String() + "-opts[" + strings.Join(desc, ",") + "]"
}

// hbhSplice inserts a hop-by-hop extension header behind the first IPv6 header that has none (next
// header and payload length adjusted), half of the time followed by link-layer padding behind the packet.
func hbhSplice(r *vh.Rand, in input) ([]byte, string) {
	off, _, _ := locate(in, layers.LayerTypeIPv6)
	d := in.data
	if off < 0 || off+40 > len(d) || d[off+6] == 0 {
		return nil, ""
	}
	k := r.Intn(4)
	hbh := [][]byte{{0, 0, 1, 4, 0, 0, 0, 0}, {0, 0, 5, 2, 0, 0, 1, 0}, {0, 1, 1, 12, 0, 0, 0, 0, 0, 0, 0, 0, 0, 0, 0, 0},
		{0, 0, 0xc2, 4, 0, 0, 0, 0}}[k]
	out := append([]byte(nil), d[:off+40]...)
	out = append(out, hbh...)
	out[off+40] = d[off+6]
	out[off+6] = 0
	m := "ip6-hbh"
	if v := int(out[off+4])<<8 | int(out[off+5]); v != 0 {
		v += len(hbh)
		if k == 3 { // jumbogram: length 0 in the fixed header, 64 KiB + the real one in the option (a capture cut short)
			out[off+44], out[off+45], out[off+46], out[off+47] = 0, 1, byte(v>>8), byte(v)
			v = 0
			m = "ip6-jumbo"
		}
		out[off+4], out[off+5] = byte(v>>8), byte(v)
	}
	out = append(out, d[off+40:]...)
	if r.Bool() {
		out = append(out, r.Bytes(1+r.Intn(30))...)
		m += "+trailer"
	}
	return out, m
}

// variant derives one mutated input (or returns the input itself).
func variant(r *vh.Rand, in input) input {
	if r.Bool() { // IPv6 is rare in the fixtures: every second IPv6 input gets a hop-by-hop header
		if d, m := hbhSplice(r, in); d != nil {
			return input{in.name + "~" + m, in.first, d}
		}
	}
	switch k := r.Intn(10); {
	case k < 3:
		return in
	case k < 6:
		if d, m := splice(r, in); d != nil {
			out := input{in.name + "~" + m, in.first, d}
			if r.Intn(4) == 0 {
				d2, m2 := corpus.Mutate(r, out.data)
				out = input{out.name + "~" + m2, in.first, d2}
			}
			return out
		}
		fallthrough
	case k < 8:
		if d, m := corpus.LayerAware(r, corpus.Fixture{Name: in.name, Data: in.data, First: in.first}); d != nil {
			return input{in.name + "~" + m, in.first, d}
		}
		fallthrough
	default:
		d, m := corpus.Mutate(r, in.data)
		if len(d) > 9000 {
			d = d[:9000]
		}
		return input{in.name + "~" + m, in.first, d}
	}
}

// shape is a coarse structural signature of an input (layer types and the lengths of all slice-valued
// exported fields of its core layers); used only to draw structurally diverse pools.
func shape(in input) string {
	p := safePacket(in.data, in.first, false)
	if p == nil {
		return "panic"
	}
	var sb strings.Builder
	for _, l := range p.Layers() {
		sb.WriteString(l.LayerType().String())
		if coreIndex(l.LayerType()) >= 0 && coreIndex(l.LayerType()) != 7 {
			v := reflect.ValueOf(l)
			if v.Kind() == reflect.Ptr {
				v = v.Elem()
			}
			if v.Kind() == reflect.Struct {
				for i := 0; i < v.NumField(); i++ {
					f := v.Field(i)
					ft := v.Type().Field(i)
					if ft.PkgPath != "" || ft.Name == "BaseLayer" {
						continue
					}
					switch f.Kind() {
					case reflect.Slice:
						n := f.Len()
						if f.Type().Elem().Kind() == reflect.Uint8 && n > 1 {
							n = 1
						}
						fmt.Fprintf(&sb, ".%d", min(n, 3))
					case reflect.Bool:
						if f.Bool() {
							sb.WriteString(".t")
						}
					case reflect.Ptr:
						if !f.IsNil() {
							sb.WriteString(".p")
						}
					}
				}
			}
		}
		sb.WriteString("/")
	}
	if p.Metadata().Truncated {
		sb.WriteString("T")
	}
	return sb.String()
}

// drawPool picks n structurally diverse inputs with the given first layer type.
func drawPool(r *vh.Rand, base []input, first gopacket.LayerType, n int) []input {
	var cand []input
	for _, in := range base {
		if in.first == first {
			cand = append(cand, in)
		}
	}
	if len(cand) == 0 {
		return nil
	}
	// candidates: pristine inputs and variants, grouped by shape
	groups := map[string][]input{}
	var keys []string
	seen := map[string]bool{}
	addc := func(in input) {
		if seen[string(in.data)] {
			return
		}
		seen[string(in.data)] = true
		s := shape(in)
		if _, ok := groups[s]; !ok {
			keys = append(keys, s)
		}
		groups[s] = append(groups[s], in)
	}
	tries := 12 * n
	for i := 0; i < tries; i++ {
		in := cand[r.Intn(len(cand))]
		if i%3 != 0 {
			in = variant(r, in)
		}
		addc(in)
	}
	sort.Strings(keys)
	// seeded shuffle of the groups, then round robin
	for i := len(keys) - 1; i > 0; i-- {
		j := r.Intn(i + 1)
		keys[i], keys[j] = keys[j], keys[i]
	}
	var pool []input
	for round := 0; len(pool) < n; round++ {
		took := false
		for _, k := range keys {
			g := groups[k]
			if round < len(g) && len(pool) < n {
				pool = append(pool, g[round])
				took = true
			}
		}
		if !took {
			break
		}
	}
	for i := 0; len(pool) < n; i++ { // tiny candidate sets: repeat (keys stay distinct by index)
		pool = append(pool, pool[i%len(pool)])
	}
	return pool
}
