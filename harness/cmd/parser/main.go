// parser: conformance driver for DecodingLayerParser (Parser.tla): C05.
//
//	-mode script : replays TLC-exported (script, container set) pairs with scripted DecodingLayers through the
//	               four container implementations and through gopacket.NewPacket with the equivalent Decoders
//	-mode real   : fixtures / mutations through NewPacket and through parsers over seeded subsets of the
//	               core stack x 4 containers
//	-mode stale  : TLC-exported index sequences over seeded pools of inputs: reused objects vs fresh objects
package main

import (
	"bufio"
	"encoding/hex"
	"encoding/json"
	"flag"
	"fmt"
	"os"
	"strings"
	"sync/atomic"
	"time"

	"github.com/gopacket/gopacket"
	"verif/harness/vh"
)

var (
	round0   int
	poolSize int
	onlyCase int
	withHex  bool
	mutant   int
)

var progress atomic.Int64
var curCase atomic.Value

func watchdog(tr *vh.Trace) {
	last, stuck := int64(-1), 0
	for {
		time.Sleep(1 * time.Second)
		cur := progress.Load()
		if cur == last {
			stuck++
		} else {
			last, stuck = cur, 0
		}
		if stuck >= 20 && cur > 0 {
			desc, _ := curCase.Load().(string)
			tr.Emit(vh.M{"op": "hang", "sc": int(cur), "in": desc})
			tr.Close()
			fmt.Printf("{\"scenarios\":%d,\"events\":%d,\"hang\":true}\n", cur, tr.N)
			os.Exit(3)
		}
	}
}

type scen struct {
	Script []int `json:"script"`
	S      []int `json:"s"`
}

func mtypes(ts []gopacket.LayerType) []int {
	r := make([]int, len(ts))
	for i, t := range ts {
		r[i] = modelType(t)
	}
	return r
}

func runScript(tr *vh.Trace, sc int, s scen) {
	data := make([]byte, len(s.Script))
	for i, c := range s.Script {
		data[i] = byte(c)
	}
	first := scriptTypes[(s.Script[0]%128)/16+1]
	ev := vh.M{"op": "scr", "sc": sc, "script": s.Script, "s": s.S}
	msg, site, panicked := vh.Guard(func() {
		// full packet decoding with the equivalent Decoders
		pk := gopacket.NewPacket(data, first, gopacket.DecodeOptions{DecodeStreamsAsDatagrams: sc%2 == 0, NoCopy: sc%4 < 2})
		var lt []gopacket.LayerType
		fail := 0
		for i, l := range pk.Layers() {
			lt = append(lt, l.LayerType())
			if el := pk.ErrorLayer(); el != nil && gopacket.Layer(el) == l {
				fail = i + 1
			}
		}
		ev["pkt"] = vh.M{"types": mtypes(lt), "trunc": pk.Metadata().Truncated, "fail": fail}
		// the parsers
		var obs []vh.M
		var keys []string
		var who []int // container + 4*flavour + 12*IgnoreUnsupported
		for fi, fl := range []string{"cold", "warm", "pre"} {
			for ii, ign := range []bool{false, true} {
				for kind := 0; kind < 4; kind++ {
					var dls []gopacket.DecodingLayer
					var mine []*sDL
					for _, t := range s.S {
						l := &sDL{t: scriptTypes[t], parserSide: true}
						mine = append(mine, l)
						dls = append(dls, l)
					}
					p := newParser(first, kind, dls)
					p.IgnoreUnsupported = ign
					var decoded []gopacket.LayerType
					switch fl {
					case "warm": // the parser decoded another packet before: a truncating layer of the first type, then this script's tail
						warm := append([]byte{byte(s.Script[0]%128/16*16 + 1)}, data...)
						p.DecodeLayers(warm, &decoded)
					case "pre": // the caller's slice is not empty ("DecodeLayers truncates the 'decoded' slice initially")
						decoded = append(decoded, scriptTypes[5], scriptTypes[5])
					}
					err := p.DecodeLayers(data, &decoded)
					k, ut, _ := errKind(err)
					bad := ""
					for _, l := range mine {
						if l.misuse != "" {
							bad = l.misuse
						}
					}
					obs = append(obs, vh.M{"types": mtypes(decoded), "err": k, "ut": modelType(ut), "trunc": p.Truncated, "bad": bad})
					who = append(who, kind+4*fi+12*ii)
					keys = append(keys, fmt.Sprint(decoded, k, ut, p.Truncated, bad))
				}
			}
		}
		ev["res"] = group(obs, who, keys)
	})
	if panicked {
		tr.Emit(vh.M{"op": "panic", "sc": sc, "script": s.Script, "s": s.S, "msg": msg, "site": site})
		return
	}
	tr.Emit(ev)
}

func main() {
	mode := flag.String("mode", "script", "script | real | stale | explain")
	n := flag.Int("n", 1000, "real mode: number of inputs")
	nsub := flag.Int("subsets", 32, "real mode: number of seeded subsets of the core stack")
	rounds := flag.Int("rounds", 1, "stale mode: number of pool draws per type")
	seed := flag.Uint64("seed", 1, "seed")
	in := flag.String("scenarios", "", "ndjson scenarios")
	out := flag.String("trace", "trace.ndjson", "trace output")
	first := flag.String("first", "Ethernet", "explain mode: first layer type")
	flag.IntVar(&round0, "round0", 0, "stale mode: index of the first pool draw")
	flag.IntVar(&poolSize, "poolsize", 0, "stale mode: inputs per pool (default: the largest index used)")
	flag.IntVar(&onlyCase, "only", 0, "real mode: emit only this case (replay)")
	flag.BoolVar(&withHex, "hex", false, "add the input bytes (hex) to real / reuse events (replay, diagnosis)")
	flag.IntVar(&mutant, "mutant", 0, "self-test: 1 = the custom container's lookup ignores the type, 2 = scripted layers forget SetTruncated")
	flag.Parse()
	if *mode == "explain" {
		ft := gopacket.LayerTypeZero
		for i, nm := range coreNames {
			if nm == *first {
				ft = coreTypes[i]
			}
		}
		var datas [][]byte
		for _, h := range flag.Args() {
			b, err := hex.DecodeString(strings.TrimSpace(h))
			if err != nil {
				vh.Fatal(err)
			}
			datas = append(datas, b)
		}
		explain(ft, datas)
		return
	}
	tr := vh.NewTrace(*out)
	go watchdog(tr)
	cnt := 0
	switch *mode {
	case "script", "stale":
		f, err := os.Open(*in)
		if err != nil {
			vh.Fatal(err)
		}
		rd := bufio.NewScanner(f)
		rd.Buffer(make([]byte, 1<<20), 1<<24)
		var seqs [][]int
		for rd.Scan() {
			if *mode == "script" {
				var s scen
				if err := json.Unmarshal(rd.Bytes(), &s); err != nil || len(s.Script) == 0 {
					vh.Fatal("bad scenario", err, rd.Text())
				}
				cnt++
				progress.Store(int64(cnt))
				curCase.Store(rd.Text())
				runScript(tr, cnt, s)
			} else {
				var s seqScen
				if err := json.Unmarshal(rd.Bytes(), &s); err != nil || len(s.Seq) == 0 {
					vh.Fatal("bad scenario", err, rd.Text())
				}
				seqs = append(seqs, s.Seq)
			}
		}
		if *mode == "stale" {
			cnt = runStale(tr, seqs, *seed, *rounds)
		}
	case "real":
		cnt = runReal(tr, *n, *seed, *nsub)
	default:
		vh.Fatal("unknown mode")
	}
	tr.Close()
	fmt.Printf("{\"scenarios\":%d,\"events\":%d}\n", cnt, tr.N)
}
