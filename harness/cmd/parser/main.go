// parser: conformance driver for DecodingLayerParser (Parser.tla): C05.
//
//	-mode script : replays TLC-exported (script, container set) pairs with scripted DecodingLayers through the
//	               four container implementations and through gopacket.NewPacket with the equivalent Decoders
//	-mode real   : fixtures / mutations through NewPacket and through parsers over seeded subsets of the
//	               core stack x 4 containers
//	-mode stale  : TLC-exported index sequences over seeded pools of inputs: reused objects vs fresh objects
package main

import (
	"bufio"
	"encoding/hex"
	"encoding/json"
	"flag"
	"fmt"
	"os"
	"sort"
	"strings"
	"sync/atomic"
	"time"

	"github.com/gopacket/gopacket"
	"verif/harness/vh"
)

var (
	round0   int
	poolSize int
	onlyCase int
	withHex  bool
	mutant   int
)

var progress atomic.Int64
var curCase atomic.Value

func watchdog(tr *vh.Trace) {
	last, stuck := int64(-1), 0
	for {
		time.Sleep(1 * time.Second)
		cur := progress.Load()
		if cur == last {
			stuck++
		} else {
			last, stuck = cur, 0
		}
		if stuck >= 20 && cur > 0 {
			desc, _ := curCase.Load().(string)
			tr.Emit(vh.M{"op": "hang", "sc": int(cur), "in": desc})
			tr.Close()
			fmt.Printf("{\"scenarios\":%d,\"events\":%d,\"hang\":true}\n", cur, tr.N)
			os.Exit(3)
		}
	}
}

type scen struct {
	Script []int `json:"script"`
	S      []int `json:"s"`
}

func mtypes(ts []gopacket.LayerType) []int {
	r := make([]int, len(ts))
	for i, t := range ts {
		r[i] = modelType(t)
	}
	return r
}

// planFor picks the construction plan of a scenario: the plans whose order is a permutation of the
// scenario's set, taken in rotation (every pair has one plan; all plans are used across the pairs).
func planFor(plans map[string][]plan, sc int, set []int) plan {
	if c := plans[fmt.Sprint(set)]; len(c) > 0 {
		return c[sc%len(c)]
	}
	return plan{Order: set, Cut: len(set) / 2}
}

func loadPlans(path string) map[string][]plan {
	out := map[string][]plan{}
	if path == "" {
		return out
	}
	f, err := os.Open(path)
	if err != nil {
		vh.Fatal(err)
	}
	rd := bufio.NewScanner(f)
	for rd.Scan() {
		var p plan
		if err := json.Unmarshal(rd.Bytes(), &p); err != nil {
			vh.Fatal("bad plan", err, rd.Text())
		}
		if p.Order == nil {
			p.Order = []int{}
		}
		set := append([]int{}, p.Order...)
		sort.Ints(set)
		out[fmt.Sprint(set)] = append(out[fmt.Sprint(set)], p)
	}
	return out
}

func runScript(tr *vh.Trace, sc int, s scen, pl plan) {
	data := make([]byte, len(s.Script))
	for i, c := range s.Script {
		data[i] = byte(c)
	}
	first := scriptTypes[(s.Script[0]%128)/16+1]
	ev := vh.M{"op": "scr", "sc": sc, "script": s.Script, "s": s.S}
	msg, site, panicked := vh.Guard(func() {
		// full packet decoding with the equivalent Decoders
		pk := gopacket.NewPacket(data, first, gopacket.DecodeOptions{DecodeStreamsAsDatagrams: sc%2 == 0, NoCopy: sc%4 < 2})
		var lt []gopacket.LayerType
		fail := 0
		for i, l := range pk.Layers() {
			lt = append(lt, l.LayerType())
			if el := pk.ErrorLayer(); el != nil && gopacket.Layer(el) == l {
				fail = i + 1
			}
		}
		ev["pkt"] = vh.M{"types": mtypes(lt), "trunc": pk.Metadata().Truncated, "fail": fail}
		// the parsers
		var obs, mobs []vh.M
		var keys, mkeys []string
		var who, mwho []int // container + 4*flavour + 20*IgnoreUnsupported; mid: container + 4*IgnoreUnsupported
		observe := func(p *gopacket.DecodingLayerParser, decoded []gopacket.LayerType, err error, mine []*sDL) (vh.M, string) {
			k, ut, _ := errKind(err)
			bad := ""
			for _, l := range mine {
				if l.misuse != "" {
					bad = l.misuse
				}
			}
			return vh.M{"types": mtypes(decoded), "err": k, "ut": modelType(ut), "trunc": p.Truncated, "bad": bad},
				fmt.Sprint(decoded, k, ut, p.Truncated, bad)
		}
		for fi, fl := range []string{"cold", "warm", "pre", "add", "late"} {
			for ii, ign := range []bool{false, true} {
				for kind := 0; kind < 4; kind++ {
					// the layers, in the order of the set (cold, warm, pre) or of the construction plan (add, late)
					ord := s.S
					if fi >= 3 {
						ord = pl.Order
					}
					var dls []gopacket.DecodingLayer
					var mine []*sDL
					for _, t := range ord {
						l := &sDL{t: scriptTypes[t], parserSide: true}
						mine = append(mine, l)
						dls = append(dls, l)
					}
					var p *gopacket.DecodingLayerParser
					var decoded []gopacket.LayerType
					switch fl {
					case "add": // SetDecodingLayerContainer(empty), then AddDecodingLayer in the plan's order
						p = addParser(first, kind, dls)
						p.IgnoreUnsupported = ign
					case "late": // part of the layers, a packet decoded, then the rest added
						p = lateParser(first, kind, dls[:pl.Cut])
						p.IgnoreUnsupported = ign
						err := p.DecodeLayers(data, &decoded)
						o, k := observe(p, decoded, err, mine)
						mobs, mkeys, mwho = append(mobs, o), append(mkeys, k), append(mwho, kind+4*ii)
						for _, d := range dls[pl.Cut:] {
							p.AddDecodingLayer(d)
						}
					default:
						p = newParser(first, kind, dls)
						p.IgnoreUnsupported = ign
					}
					switch fl {
					case "warm": // the parser decoded another packet before: a truncating layer of the first type, then this script's tail
						warm := append([]byte{byte(s.Script[0]%128/16*16 + 1)}, data...)
						p.DecodeLayers(warm, &decoded)
					case "pre": // the caller's slice is not empty ("DecodeLayers truncates the 'decoded' slice initially")
						decoded = append(decoded[:0], scriptTypes[5], scriptTypes[5])
					}
					err := p.DecodeLayers(data, &decoded)
					o, k := observe(p, decoded, err, mine)
					obs, keys, who = append(obs, o), append(keys, k), append(who, kind+4*fi+20*ii)
				}
			}
		}
		ms := append([]int{}, pl.Order[:pl.Cut]...)
		sort.Ints(ms)
		ev["plan"] = vh.M{"order": pl.Order, "cut": pl.Cut}
		ev["mid"] = vh.M{"s": ms, "res": group(mobs, mwho, mkeys)}
		ev["res"] = group(obs, who, keys)
	})
	if panicked {
		tr.Emit(vh.M{"op": "panic", "sc": sc, "script": s.Script, "s": s.S, "msg": msg, "site": site})
		return
	}
	tr.Emit(ev)
}

func main() {
	mode := flag.String("mode", "script", "script | real | stale | explain")
	n := flag.Int("n", 1000, "real mode: number of inputs")
	nsub := flag.Int("subsets", 32, "real mode: number of seeded subsets of the core stack")
	rounds := flag.Int("rounds", 1, "stale mode: number of pool draws per type")
	seed := flag.Uint64("seed", 1, "seed")
	in := flag.String("scenarios", "", "ndjson scenarios")
	plansPath := flag.String("plans", "", "script mode: ndjson construction plans (ParserBuildGen.tla)")
	out := flag.String("trace", "trace.ndjson", "trace output")
	first := flag.String("first", "Ethernet", "explain mode: first layer type")
	flag.IntVar(&round0, "round0", 0, "stale mode: index of the first pool draw")
	flag.IntVar(&poolSize, "poolsize", 0, "stale mode: inputs per pool (default: the largest index used)")
	flag.IntVar(&onlyCase, "only", 0, "real mode: emit only this case (replay)")
	flag.BoolVar(&withHex, "hex", false, "add the input bytes (hex) to real / reuse events (replay, diagnosis)")
	flag.IntVar(&mutant, "mutant", 0, "self-test: 1 = the custom container's lookup ignores the type, 2 = scripted layers forget SetTruncated")
	flag.Parse()
	if *mode == "explain" {
		ft := gopacket.LayerTypeZero
		for i, nm := range coreNames {
			if nm == *first {
				ft = coreTypes[i]
			}
		}
		var datas [][]byte
		for _, h := range flag.Args() {
			b, err := hex.DecodeString(strings.TrimSpace(h))
			if err != nil {
				vh.Fatal(err)
			}
			datas = append(datas, b)
		}
		explain(ft, datas)
		return
	}
	tr := vh.NewTrace(*out)
	go watchdog(tr)
	cnt := 0
	switch *mode {
	case "script", "stale":
		f, err := os.Open(*in)
		if err != nil {
			vh.Fatal(err)
		}
		rd := bufio.NewScanner(f)
		rd.Buffer(make([]byte, 1<<20), 1<<24)
		var seqs [][]int
		plans := loadPlans(*plansPath)
		for rd.Scan() {
			if *mode == "script" {
				var s scen
				if err := json.Unmarshal(rd.Bytes(), &s); err != nil || len(s.Script) == 0 {
					vh.Fatal("bad scenario", err, rd.Text())
				}
				cnt++
				progress.Store(int64(cnt))
				curCase.Store(rd.Text())
				if s.S == nil {
					s.S = []int{}
				}
				runScript(tr, cnt, s, planFor(plans, cnt, s.S))
			} else {
				var s seqScen
				if err := json.Unmarshal(rd.Bytes(), &s); err != nil || len(s.Seq) == 0 {
					vh.Fatal("bad scenario", err, rd.Text())
				}
				seqs = append(seqs, s.Seq)
			}
		}
		if *mode == "stale" {
			cnt = runStale(tr, seqs, *seed, *rounds)
		}
	case "real":
		cnt = runReal(tr, *n, *seed, *nsub)
	default:
		vh.Fatal("unknown mode")
	}
	tr.Close()
	fmt.Printf("{\"scenarios\":%d,\"events\":%d}\n", cnt, tr.N)
}
