package main

// Scripted decoding layers: the input bytes ARE the script of Parser.tla (one step code per layer).
//   code = pe*128 + kind*16 + out*2 + trunc
// A real gopacket.DecodingLayer implementation interprets them; the equivalent gopacket.Decoder used
// for full packet decoding wraps the very same DecodeFromBytes in the way layers/base.go
// (decodingLayerDecoder) does for the real layers.

import (
	"errors"
	"fmt"

	"github.com/gopacket/gopacket"
)

const typeBase = 180 // 181..185: unused by gopacket; small, so that DecodingLayerSparse stays small

var scriptTypes [6]gopacket.LayerType // index = model layer type 1..5 (5 is never decodable: junk marker)

var errScript = errors.New("scripted decode error")

// sDL is a scripted DecodingLayer (and Layer) for one layer type.
type sDL struct {
	t        gopacket.LayerType
	contents []byte
	payload  []byte
	next     gopacket.LayerType
	misuse   string
	// parserSide marks the objects handed to a DecodingLayerParser (self-test mutant 2 breaks only those)
	parserSide bool
}

func (l *sDL) LayerType() gopacket.LayerType     { return l.t }
func (l *sDL) LayerContents() []byte             { return l.contents }
func (l *sDL) LayerPayload() []byte              { return l.payload }
func (l *sDL) CanDecode() gopacket.LayerClass    { return l.t }
func (l *sDL) NextLayerType() gopacket.LayerType { return l.next }

func (l *sDL) DecodeFromBytes(data []byte, df gopacket.DecodeFeedback) error {
	if len(data) == 0 {
		l.misuse = "DecodeFromBytes called with empty data"
		return errors.New("harness: empty data")
	}
	c := int(data[0])
	pe := c >= 128
	c %= 128
	kind, out, trunc := c/16, (c%16)/2, c%2 == 1
	if scriptTypes[kind+1] != l.t {
		l.misuse = fmt.Sprintf("layer for type %v asked to decode a byte of kind %d", l.t, kind)
	}
	if trunc && !(mutant == 2 && l.parserSide) {
		df.SetTruncated()
	}
	if out == 2 {
		return errScript
	}
	l.contents = data[:1]
	if pe {
		l.payload = nil
	} else {
		l.payload = data[1:]
	}
	l.next = gopacket.LayerTypeZero
	if out != 1 && len(data) > 1 {
		l.next = scriptTypes[(int(data[1])%128)/16+1]
	}
	return nil
}

// decodeScript is the Decoder registered for every scripted layer type (shape of layers.decodingLayerDecoder).
func decodeScript(data []byte, p gopacket.PacketBuilder) error {
	if len(data) == 0 {
		return errors.New("harness: empty data")
	}
	l := &sDL{t: scriptTypes[(int(data[0])%128)/16+1]}
	if err := l.DecodeFromBytes(data, p); err != nil {
		return err
	}
	p.AddLayer(l)
	next := l.NextLayerType()
	if next == gopacket.LayerTypeZero {
		return nil
	}
	return p.NextDecoder(next)
}

func init() {
	for t := 1; t <= 5; t++ {
		scriptTypes[t] = gopacket.RegisterLayerType(typeBase+t, gopacket.LayerTypeMetadata{
			Name: fmt.Sprintf("Script%d", t), Decoder: gopacket.DecodeFunc(decodeScript)})
	}
}

// modelType maps a real layer type back to the model's numbering (0 = LayerTypeZero, 6 = DecodeFailure)
func modelType(t gopacket.LayerType) int {
	switch t {
	case gopacket.LayerTypeDecodeFailure:
		return 6
	case gopacket.LayerTypeZero:
		return 0
	}
	for i := 1; i <= 5; i++ {
		if scriptTypes[i] == t {
			return i
		}
	}
	return -1
}

// ---------------------------------------------------------------------------------------------
// the four container implementations

// listContainer is a DecodingLayerContainer that is none of the three library types, so that
// gopacket.LayersDecoder takes its generic (interface) branch.
type listContainer struct {
	head *listNode
}
type listNode struct {
	typ  gopacket.LayerType
	dec  gopacket.DecodingLayer
	next *listNode
}

func (c *listContainer) Put(d gopacket.DecodingLayer) gopacket.DecodingLayerContainer {
	for _, typ := range d.CanDecode().LayerTypes() {
		found := false
		for n := c.head; n != nil; n = n.next {
			if n.typ == typ {
				n.dec, found = d, true
			}
		}
		if !found {
			c.head = &listNode{typ: typ, dec: d, next: c.head}
		}
	}
	return c
}

func (c *listContainer) Decoder(t gopacket.LayerType) (gopacket.DecodingLayer, bool) {
	for n := c.head; n != nil; n = n.next {
		if n.typ == t || mutant == 1 {
			return n.dec, true
		}
	}
	return nil, false
}

func (c *listContainer) LayersDecoder(first gopacket.LayerType, df gopacket.DecodeFeedback) gopacket.DecodingLayerFunc {
	return gopacket.LayersDecoder(c, first, df)
}

var containerNames = []string{"map", "sparse", "array", "custom"}

func newContainer(kind int) gopacket.DecodingLayerContainer {
	switch kind {
	case 0:
		return gopacket.DecodingLayerMap(nil)
	case 1:
		return gopacket.DecodingLayerSparse(nil)
	case 2:
		return gopacket.DecodingLayerArray(nil)
	}
	return &listContainer{}
}

// newParser builds a parser over the given layers in the given container implementation.
func newParser(first gopacket.LayerType, kind int, dls []gopacket.DecodingLayer) *gopacket.DecodingLayerParser {
	p := gopacket.NewDecodingLayerParser(first)
	c := newContainer(kind)
	for _, d := range dls {
		c = c.Put(d)
	}
	p.SetDecodingLayerContainer(c)
	return p
}

// plan is a construction plan exported by ParserBuildGen.tla: SetDecodingLayerContainer(empty container),
// AddDecodingLayer in `Order`, one DecodeLayers call after the first `Cut` of them and one at the end.
type plan struct {
	Order []int `json:"order"`
	Cut   int   `json:"cut"`
}

// addParser builds a parser the way doc.go shows: an empty container of the given kind is installed, then
// the layers are added one by one with AddDecodingLayer.
func addParser(first gopacket.LayerType, kind int, dls []gopacket.DecodingLayer) *gopacket.DecodingLayerParser {
	p := gopacket.NewDecodingLayerParser(first)
	p.SetDecodingLayerContainer(newContainer(kind))
	for _, d := range dls {
		p.AddDecodingLayer(d)
	}
	return p
}

// lateParser builds a parser over the first part of the layers; for the map container (the parser's
// default) they are handed to NewDecodingLayerParser itself, the other containers are installed empty and
// filled with AddDecodingLayer.  The caller decodes, then adds the rest with AddDecodingLayer.
func lateParser(first gopacket.LayerType, kind int, early []gopacket.DecodingLayer) *gopacket.DecodingLayerParser {
	if kind == 0 {
		return gopacket.NewDecodingLayerParser(first, early...)
	}
	return addParser(first, kind, early)
}

// errKind classifies the error returned by DecodeLayers: none | unsup (+ type) | error
func errKind(err error) (string, gopacket.LayerType, string) {
	if err == nil {
		return "none", gopacket.LayerTypeZero, ""
	}
	var u gopacket.UnsupportedLayerType
	if errors.As(err, &u) {
		return "unsup", gopacket.LayerType(u), err.Error()
	}
	return "error", gopacket.LayerTypeZero, err.Error()
}
