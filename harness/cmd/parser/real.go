package main

// Real layers (C05 parts 2 and 3).
//   event "rl"    : one input decoded by gopacket.NewPacket(DecodeStreamsAsDatagrams) and by
//                   DecodingLayerParsers over one subset of the core stack x 4 containers x
//                   IgnoreUnsupported on/off; carries both results.
//   event "fresh" : one pool input decoded into fresh layer objects (reference for the memo)
//   event "reuse" : the last input of a sequence decoded into layer objects (and a parser) that
//                   decoded the earlier inputs of the sequence before
// Digests (harness/vh Digest: reflection over exported fields) are computed here only to be compared for
// equality by the TLA+ trace modules.

import (
	"encoding/hex"
	"encoding/json"
	"fmt"
	"reflect"
	"sort"
	"strings"

	"github.com/gopacket/gopacket"
	"github.com/gopacket/gopacket/layers"
	"verif/harness/vh"
)

func short(b []byte) string { return fmt.Sprintf("%d:%s", len(b), vh.Digest(b)[:8]) }
func dtext(s string) string { return vh.Digest(s)[:12] }

// rec wraps a DecodingLayer and records every DecodeFromBytes call the parser makes: the type it was
// registered for, the outcome, and (on success) what the layer then reports and a digest of its state.
type rec struct {
	inner gopacket.DecodingLayer
	t     gopacket.LayerType
	log   *[]vh.M
}

func (w *rec) CanDecode() gopacket.LayerClass    { return w.inner.CanDecode() }
func (w *rec) NextLayerType() gopacket.LayerType { return w.inner.NextLayerType() }
func (w *rec) LayerPayload() []byte              { return w.inner.LayerPayload() }
func (w *rec) DecodeFromBytes(data []byte, df gopacket.DecodeFeedback) (err error) {
	done := false
	defer func() {
		if !done { // the layer panicked: record the call, let the panic travel on to the parser
			*w.log = append(*w.log, vh.M{"t": w.t.String(), "ok": false, "n": "", "e": false, "d": "", "c": "", "p": "", "ce": "panic"})
		}
	}()
	err = w.inner.DecodeFromBytes(data, df)
	done = true
	if err != nil {
		*w.log = append(*w.log, vh.M{"t": w.t.String(), "ok": false, "n": "", "e": false, "d": "", "c": "", "p": "", "ce": dtext(err.Error())})
		return err
	}
	l := w.inner.(gopacket.Layer)
	c := vh.M{"t": w.t.String(), "ok": true, "n": w.inner.NextLayerType().String(),
		"e": len(w.inner.LayerPayload()) == 0, "d": vh.Digest(l), "c": short(l.LayerContents()), "p": short(l.LayerPayload()), "ce": ""}
	if fieldDigests {
		c["f"] = fieldsOf(l)
	}
	*w.log = append(*w.log, c)
	return nil
}

// fieldDigests: also record one digest per exported top-level field (stale-state mode: lets the trace
// module name the fields that differ)
var fieldDigests = false

func fieldsOf(l interface{}) vh.M {
	out := vh.M{}
	v := reflect.ValueOf(l)
	for v.Kind() == reflect.Ptr && !v.IsNil() {
		v = v.Elem()
	}
	if v.Kind() != reflect.Struct {
		out["value"] = vh.Digest(l)[:8]
		return out
	}
	for i := 0; i < v.NumField(); i++ {
		ft := v.Type().Field(i)
		if ft.PkgPath != "" {
			continue
		}
		out[ft.Name] = vh.Digest(v.Field(i).Interface())[:8]
	}
	return out
}

// freshLayers allocates new layer objects for the subset `mask` of the core stack, each behind a recorder.
func freshLayers(mask int, log *[]vh.M) []gopacket.DecodingLayer {
	mk := []func() gopacket.DecodingLayer{
		func() gopacket.DecodingLayer { return &layers.Ethernet{} },
		func() gopacket.DecodingLayer { return &layers.Dot1Q{} },
		func() gopacket.DecodingLayer { return &layers.IPv4{} },
		func() gopacket.DecodingLayer { return &layers.IPv6{} },
		func() gopacket.DecodingLayer { return &layers.TCP{} },
		func() gopacket.DecodingLayer { return &layers.UDP{} },
		func() gopacket.DecodingLayer { return &layers.DNS{} },
		func() gopacket.DecodingLayer { return new(gopacket.Payload) },
	}
	var out []gopacket.DecodingLayer
	for i := range coreTypes {
		if mask&(1<<uint(i)) != 0 {
			out = append(out, &rec{inner: mk[i](), t: coreTypes[i], log: log})
		}
	}
	return out
}

func maskNames(mask int) []string {
	var s []string
	for i, n := range coreNames {
		if mask&(1<<uint(i)) != 0 {
			s = append(s, n)
		}
	}
	return s
}

// parserRun: one DecodeLayers call; returns the observation record (without "who")
func parserRun(p *gopacket.DecodingLayerParser, log *[]vh.M, data []byte, decoded *[]gopacket.LayerType) vh.M {
	*log = (*log)[:0]
	var err error
	msg, _, panicked := vh.Guard(func() { err = p.DecodeLayers(data, decoded) })
	kind, ut, text := errKind(err)
	if panicked { // only possible with IgnorePanic, which is never set here: harness or library breakage
		kind, text = "escaped-panic", msg
	}
	types := make([]string, len(*decoded))
	for i, t := range *decoded {
		types[i] = t.String()
	}
	calls := append([]vh.M(nil), (*log)...)
	et := ""
	if kind == "error" || kind == "escaped-panic" {
		et = dtext(text)
	}
	return vh.M{"types": types, "calls": calls, "err": kind, "ut": ut.String(), "et": et, "trunc": p.Truncated}
}

// packetObs: full packet decoding of the same bytes
func packetObs(data []byte, first gopacket.LayerType) vh.M {
	var ls []vh.M
	fail, ft, fpt, trunc := false, "", "", false
	msg, _, panicked := vh.Guard(func() {
		p := gopacket.NewPacket(data, first, gopacket.DecodeOptions{DecodeStreamsAsDatagrams: true})
		all := p.Layers()
		for i, l := range all {
			if f, ok := l.(*gopacket.DecodeFailure); ok {
				fail = true
				ft = dtext(f.Error().Error())
				fpt = dtext("panic: " + f.Error().Error())
				ls = append(ls, vh.M{"t": l.LayerType().String(), "d": "", "c": short(l.LayerContents()), "p": short(l.LayerPayload()), "emb": 0})
				continue
			}
			emb := 0
			if h, ok := l.(*layers.IPv6HopByHop); ok && i > 0 {
				if ip6, ok := all[i-1].(*layers.IPv6); ok && ip6.HopByHop == h {
					emb = 1 // decodeIPv6 adds the hop-by-hop header it already decoded inside the IPv6 layer as a layer of its own
					if ip6.Length == 0 {
						emb = 2 // ... of a jumbogram
					}
				}
			}
			ls = append(ls, vh.M{"t": l.LayerType().String(), "d": vh.Digest(l), "c": short(l.LayerContents()), "p": short(l.LayerPayload()), "emb": emb})
		}
		trunc = p.Metadata().Truncated
	})
	if panicked {
		return vh.M{"ls": []vh.M{}, "fail": false, "ft": "", "fpt": "", "trunc": false, "panic": msg}
	}
	if ls == nil {
		ls = []vh.M{}
	}
	return vh.M{"ls": ls, "fail": fail, "ft": ft, "fpt": fpt, "trunc": trunc, "panic": ""}
}

// group merges identical observations, collecting who produced them
func group(obs []vh.M, who []int, keys []string) []vh.M {
	var out []vh.M
	idx := map[string]int{}
	for i, o := range obs {
		var k string
		if keys != nil {
			k = keys[i]
		} else {
			kb, _ := json.Marshal(o)
			k = string(kb)
		}
		if j, ok := idx[k]; ok {
			out[j]["who"] = append(out[j]["who"].([]int), who[i])
			continue
		}
		idx[k] = len(out)
		o["who"] = []int{who[i]}
		out = append(out, o)
	}
	return out
}

func rlEvent(tr *vh.Trace, sc int, in input, mask int) {
	ev := vh.M{"op": "rl", "sc": sc, "in": in.name, "first": in.first.String(), "len": len(in.data), "s": maskNames(mask)}
	if withHex {
		ev["hex"] = hex.EncodeToString(in.data)
	}
	ev["pkt"] = packetObs(in.data, in.first)
	var obs, mobs []vh.M
	var who, mwho []int // container + 4*IgnoreUnsupported (Put + SetDecodingLayerContainer); 8 + container: AddDecodingLayer in plan order; 12 + container: layers added after a decode
	for ii, ign := range []bool{false, true} {
		for kind := 0; kind < 4; kind++ {
			var log []vh.M
			p := newParser(in.first, kind, freshLayers(mask, &log))
			p.IgnoreUnsupported = ign
			var decoded []gopacket.LayerType
			o := parserRun(p, &log, in.data, &decoded)
			obs = append(obs, o)
			who = append(who, kind+4*ii)
		}
	}
	// construction the way doc.go shows: an order of AddDecodingLayer calls with the decoder of the parser's first
	// type first / in the middle / last, and a cut after which the remaining layers join a parser that has decoded
	pr := vh.NewRand(uint64(sc)*131 + uint64(mask))
	pos := sc % 3
	var order []string
	cut := 0
	for kind := 0; kind < 4; kind++ {
		var log []vh.M
		dls := inOrder(freshLayers(mask, &log), in.first, vh.NewRand(uint64(sc)*131+uint64(mask)), pos)
		p := addParser(in.first, kind, dls)
		var decoded []gopacket.LayerType
		obs = append(obs, parserRun(p, &log, in.data, &decoded))
		who = append(who, 8+kind)
	}
	for kind := 0; kind < 4; kind++ {
		var log []vh.M
		dls := inOrder(freshLayers(mask, &log), in.first, vh.NewRand(uint64(sc)*131+uint64(mask)), pos)
		if kind == 0 {
			cut = pr.Intn(len(dls) + 1)
			order = order[:0]
			for _, d := range dls {
				order = append(order, d.(*rec).t.String())
			}
		}
		p := lateParser(in.first, kind, dls[:cut])
		var decoded []gopacket.LayerType
		mobs = append(mobs, parserRun(p, &log, in.data, &decoded))
		mwho = append(mwho, kind)
		for _, d := range dls[cut:] {
			p.AddDecodingLayer(d)
		}
		obs = append(obs, parserRun(p, &log, in.data, &decoded))
		who = append(who, 12+kind)
	}
	if order == nil {
		order = []string{}
	}
	ev["plan"] = vh.M{"order": order, "cut": cut, "firstpos": pos}
	ev["mid"] = vh.M{"s": append([]string{}, order[:cut]...), "res": group(mobs, mwho, nil)}
	ev["res"] = group(obs, who, nil)
	tr.Emit(ev)
}

// inOrder shuffles the layers and puts the decoder of the parser's first type (if present) first (pos 0), in the
// middle (1) or last (2).
func inOrder(dls []gopacket.DecodingLayer, first gopacket.LayerType, r *vh.Rand, pos int) []gopacket.DecodingLayer {
	for i := len(dls) - 1; i > 0; i-- {
		j := r.Intn(i + 1)
		dls[i], dls[j] = dls[j], dls[i]
	}
	fi := -1
	for i, d := range dls {
		if d.(*rec).t == first {
			fi = i
		}
	}
	if fi < 0 {
		return dls
	}
	f := dls[fi]
	rest := append(append([]gopacket.DecodingLayer{}, dls[:fi]...), dls[fi+1:]...)
	at := []int{0, len(rest) / 2, len(rest)}[pos]
	out := append([]gopacket.DecodingLayer{}, rest[:at]...)
	out = append(out, f)
	return append(out, rest[at:]...)
}

// runReal: part (2)
func runReal(tr *vh.Trace, n int, seed uint64, nsub int) int {
	base := baseInputs()
	r := vh.NewRand(seed)
	// the seeded subsets of the core stack (the full set always included)
	masks := []int{255}
	for len(masks) < nsub {
		masks = append(masks, r.Intn(256))
	}
	byFirst := map[gopacket.LayerType][]input{}
	for _, in := range base {
		byFirst[in.first] = append(byFirst[in.first], in)
	}
	for i := 1; i <= n; i++ {
		in := base[r.Intn(len(base))]
		if r.Bool() { // half of the cases: entry layer drawn uniformly, so that the deep layers get their share
			if c := byFirst[coreTypes[r.Intn(7)]]; len(c) > 0 {
				in = c[r.Intn(len(c))]
			}
		}
		if r.Intn(4) != 0 {
			in = variant(r, in)
		}
		progress.Store(int64(i))
		curCase.Store(in.name)
		ms := []int{masks[0], masks[1+r.Intn(len(masks)-1)], masks[1+r.Intn(len(masks)-1)]}
		for _, m := range ms {
			if onlyCase == 0 || onlyCase == i {
				rlEvent(tr, i, in, m)
			}
		}
	}
	return n
}

// ---------------------------------------------------------------------------------------------
// part (3): stale state

func valOf(o vh.M) vh.M {
	ds, dt, df := []string{}, []string{}, []vh.M{}
	for _, c := range o["calls"].([]vh.M) {
		dt = append(dt, c["t"].(string))
		if f, ok := c["f"].(vh.M); ok {
			df = append(df, f)
		} else {
			df = append(df, vh.M{})
		}
		ds = append(ds, fmt.Sprintf("%v|%s|%s|%s|%s|%s|%v", c["ok"], c["d"], c["c"], c["p"], c["ce"], c["n"], c["e"]))
	}
	return vh.M{"types": o["types"], "err": o["err"], "ut": o["ut"], "et": o["et"], "trunc": o["trunc"], "dt": dt, "ds": ds, "df": df}
}

type seqScen struct {
	Seq []int `json:"seq"`
}

func runStale(tr *vh.Trace, seqs [][]int, seed uint64, rounds int) int {
	fieldDigests = true
	base := baseInputs()
	n := 0
	maxIdx := 0
	for _, s := range seqs {
		for _, i := range s {
			if i > maxIdx {
				maxIdx = i
			}
		}
	}
	if poolSize > maxIdx {
		maxIdx = poolSize
	}
	sc := 0
	for round := round0; round < round0+rounds; round++ {
		r := vh.NewRand(seed*7919 + uint64(round))
		for ti, first := range coreTypes[:7] {
			pool := drawPool(r, base, first, maxIdx)
			if pool == nil {
				continue
			}
			pname := fmt.Sprintf("%s/%d", coreNames[ti], round)
			// reference: every pool input into fresh objects
			for i, in := range pool {
				var log []vh.M
				p := newParser(first, i%4, freshLayers(255, &log))
				var decoded []gopacket.LayerType
				o := parserRun(p, &log, in.data, &decoded)
				sc++
				tr.Emit(vh.M{"op": "fresh", "sc": sc, "key": fmt.Sprintf("%s:%d", pname, i+1), "in": in.name, "val": valOf(o)})
			}
			for si, s := range seqs {
				sc++
				n++
				progress.Store(int64(sc))
				curCase.Store(fmt.Sprintf("%s %v", pname, s))
				var log []vh.M
				var p *gopacket.DecodingLayerParser
				dls := freshLayers(255, &log)
				late := 0
				switch (si / 4) % 3 {
				case 0: // container filled with Put, installed with SetDecodingLayerContainer
					p = newParser(first, si%4, dls)
				case 1: // AddDecodingLayer one by one, first-type decoder first / in the middle / last
					p = addParser(first, si%4, inOrder(dls, first, vh.NewRand(uint64(si)), si%3))
				default: // half of the layers join after the first packet of the sequence
					dls = inOrder(dls, first, vh.NewRand(uint64(si)), si%3)
					late = len(dls) / 2
					p = lateParser(first, si%4, dls[:late])
				}
				var decoded []gopacket.LayerType
				var o vh.M
				for k, idx := range s {
					if k == 1 && late > 0 {
						for _, d := range dls[late:] {
							p.AddDecodingLayer(d)
						}
					}
					o = parserRun(p, &log, pool[idx-1].data, &decoded)
				}
				last := s[len(s)-1]
				names := make([]string, len(s))
				for k, idx := range s {
					names[k] = pool[idx-1].name
				}
				ev := vh.M{"op": "reuse", "sc": sc, "pool": pname, "seq": s, "key": fmt.Sprintf("%s:%d", pname, last),
					"who": containerNames[si%4], "ins": names, "val": valOf(o)}
				if withHex {
					hx := make([]string, len(s))
					for k, idx := range s {
						hx[k] = hex.EncodeToString(pool[idx-1].data)
					}
					ev["hex"] = hx
				}
				tr.Emit(ev)
			}
		}
	}
	return n
}

// explain prints, for one ordered sequence of inputs given as hex strings, the canonical rendering of every
// layer after fresh and after reused decoding (diagnosis aid, not part of the check).
func explain(first gopacket.LayerType, datas [][]byte) {
	render := func(dls []gopacket.DecodingLayer, decoded []gopacket.LayerType) []string {
		var out []string
		for _, t := range decoded {
			for _, d := range dls {
				if d.(*rec).t == t {
					out = append(out, t.String()+" "+vh.Render(d.(*rec).inner))
				}
			}
		}
		return out
	}
	var log []vh.M
	dls := freshLayers(255, &log)
	p := newParser(first, 0, dls)
	var decoded []gopacket.LayerType
	var err error
	for _, d := range datas {
		err = p.DecodeLayers(d, &decoded)
	}
	reused := render(dls, decoded)
	var log2 []vh.M
	dls2 := freshLayers(255, &log2)
	p2 := newParser(first, 0, dls2)
	var decoded2 []gopacket.LayerType
	err2 := p2.DecodeLayers(datas[len(datas)-1], &decoded2)
	fresh := render(dls2, decoded2)
	fmt.Println("reused:", decoded, err, p.Truncated)
	fmt.Println("fresh :", decoded2, err2, p2.Truncated)
	sort.Strings(nil)
	for i := range fresh {
		if i < len(reused) && fresh[i] != reused[i] {
			fmt.Println("DIFF fresh :", fresh[i])
			fmt.Println("DIFF reused:", reused[i])
		}
	}
	_ = strings.Join
}
