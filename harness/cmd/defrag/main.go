// defrag: replays fragment-arrival scenarios (exported by TLC from DefragGen.tla, or random beyond its
// bound) on the real ip4defrag / ip6defrag and records each result with the provenance of every output
// byte (which fragment placed it at which offset).  Validated by TLC against Defrag.tla.  C13.
package main

import (
	"bufio"
	"encoding/json"
	"flag"
	"fmt"
	"os"
	"time"

	"github.com/gopacket/gopacket/ip4defrag"
	"github.com/gopacket/gopacket/ip6defrag"
	"github.com/gopacket/gopacket/layers"
	"verif/harness/vh"
)

type op struct {
	kind   string
	key    int
	lo, hi int // bytes
	mf     bool
	t      int
	tail   int // extra bytes beyond hi on a final fragment (not a multiple of 8)
}

// content: every 8-byte group encodes (key, fragment index, absolute group index)
func fill(key, fi, lo, n int) []byte {
	b := make([]byte, n)
	for i := 0; i < n; i++ {
		g := (lo + i) / 8
		switch (lo + i) % 8 {
		case 0:
			b[i] = 0xF0 | byte(key&0xf)
		case 1:
			b[i] = byte(fi)
		case 2:
			b[i] = byte(g >> 8)
		case 3:
			b[i] = byte(g)
		case 4:
			b[i] = ^byte(fi)
		case 5:
			b[i] = ^byte(g)
		case 6:
			b[i] = 0x5a
		case 7:
			b[i] = 0xa5
		}
	}
	return b
}

type run struct {
	Fi  int `json:"fi"`
	Lo  int `json:"lo"`
	Hi  int `json:"hi"`
	Pos int `json:"pos"`
}

// decode maps the output payload back to (fragment, offset) runs.  The payload is read in 8-byte groups
// from position 0; a group that is not one of ours yields fi = -1.
// sent: the fragments handed in so far (for attributing tails too short to name their offset)
type sentFrag struct{ key, fi, lo, hi int }

func decode(p []byte, sent []sentFrag) []run {
	var runs []run
	for pos := 0; pos < len(p); pos += 8 {
		n := 8
		if pos+n > len(p) {
			n = len(p) - pos
		}
		g := p[pos : pos+n]
		fi, off := -1, -1
		if n >= 4 && g[0]&0xF0 == 0xF0 {
			gi := int(g[2])<<8 | int(g[3])
			ok := true
			if n >= 5 && g[4] != ^g[1] {
				ok = false
			}
			if n >= 6 && g[5] != ^g[3] {
				ok = false
			}
			if n >= 7 && g[6] != 0x5a {
				ok = false
			}
			if n >= 8 && g[7] != 0xa5 {
				ok = false
			}
			if ok {
				fi, off = int(g[1]), gi*8
			}
		}
		if k := len(runs); k > 0 && fi >= 0 && runs[k-1].Fi == fi && runs[k-1].Hi == off && runs[k-1].Pos+(runs[k-1].Hi-runs[k-1].Lo) == pos {
			runs[k-1].Hi += n
			continue
		}
		if fi < 0 && n < 4 && n >= 1 && g[0]&0xF0 == 0xF0 {
			// a tail of fewer than 4 bytes cannot name its offset: attribute it to a fragment that was really
			// sent for this key, covers these positions and (when the tail has 2+ bytes) has this index
			key := int(g[0] & 0x0f)
			for _, sf := range sent {
				if sf.key&0xf == key && sf.lo <= pos && pos+n <= sf.hi && (n < 2 || sf.fi&0xff == int(g[1])) {
					fi, off = sf.fi, pos
					break
				}
			}
		}
		if fi < 0 {
			runs = append(runs, run{Fi: -1, Lo: pos, Hi: pos + n, Pos: pos})
		} else {
			runs = append(runs, run{Fi: fi, Lo: off, Hi: off + n, Pos: pos})
		}
	}
	return runs
}

func ts(i int) time.Time { return time.Unix(int64(1000+i), 0) }

func runV4(tr *vh.Trace, sc int, ops []op, ihl int) {
	tr.Emit(vh.M{"op": "cfg", "sc": sc, "v": 4, "ihl": ihl})
	d := ip4defrag.NewIPv4Defragmenter()
	var sent []sentFrag
	for i, o := range ops {
		t := i + 1
		switch o.kind {
		case "frag":
			fi := t
			n := o.hi - o.lo + o.tail
			payload := fill(o.key, fi, o.lo, n)
			sent = append(sent, sentFrag{o.key, fi, o.lo, o.lo + n})
			// two datagrams are different as soon as ONE component of (source, destination, id) differs: the
			// scenarios rotate through the ways key 2 differs from key 1
			id, src, dst := uint16(100+o.key), []byte{10, 0, 0, byte(o.key)}, []byte{10, 0, 0, 99}
			switch sc % 4 {
			case 1: // same addresses, another id
				src = []byte{10, 0, 0, 1}
			case 2: // same id and destination, another source
				id = 101
			case 3: // same id, opposite direction
				id = 101
				if o.key != 1 {
					src, dst = []byte{10, 0, 0, 99}, []byte{10, 0, 0, byte(o.key - 1)}
				}
			}
			cfgIhl := ihl
			if cfgIhl == 65 { // the first fragment carries options that are not copied into the others
				ihl = 5
				if o.lo == 0 {
					ihl = 6
				}
			}
			in := &layers.IPv4{Version: 4, IHL: uint8(ihl), TOS: 3, Length: uint16(ihl*4 + n), Id: id, TTL: 61,
				Protocol: layers.IPProtocolUDP, SrcIP: src, DstIP: dst,
				FragOffset: uint16(o.lo / 8)}
			if ihl == 6 {
				in.Options = []layers.IPv4Option{{OptionType: 1, OptionLength: 1}, {OptionType: 1, OptionLength: 1}, {OptionType: 1, OptionLength: 1}, {OptionType: 0, OptionLength: 1}}
			}
			if o.mf {
				in.Flags = layers.IPv4MoreFragments
			}
			in.Payload = payload
			ev := vh.M{"op": "frag", "sc": sc, "key": o.key, "fi": fi, "lo": o.lo, "hi": o.lo + n, "mf": o.mf, "ts": t,
				"runs": []run{}, "plen": 0, "length": 0, "flags": 0, "fragoff": 0, "ihl": ihl,
				"sane": !(o.mf && n < 8) && o.lo/8 <= 8183 && o.lo+ihl*4+n <= 65535}
			var out *layers.IPv4
			var err error
			msg, site, p := vh.Guard(func() { out, err = d.DefragIPv4WithTimestamp(in, ts(t)) })
			switch {
			case p:
				ev["res"] = "panic"
				ev["msg"] = msg
				ev["site"] = site
			case err != nil:
				ev["res"] = "err"
				ev["msg"] = err.Error()
			case out == nil:
				ev["res"] = "nil"
			case out == in:
				ev["res"] = "same"
			default:
				ev["res"] = "dgram"
				ev["runs"] = decode(out.Payload, sent)
				ev["plen"] = len(out.Payload)
				ev["length"] = int(out.Length)
				ev["flags"] = int(out.Flags)
				ev["fragoff"] = int(out.FragOffset)
				ev["ihl"] = int(out.IHL)
			}
			tr.Emit(ev)
			ihl = cfgIhl
		case "discard":
			n := d.DiscardOlderThan(ts(o.t))
			tr.Emit(vh.M{"op": "discard", "sc": sc, "t": o.t, "n": n})
		}
	}
}

func runV6(tr *vh.Trace, sc int, ops []op) {
	tr.Emit(vh.M{"op": "cfg", "sc": sc, "v": 6, "ihl": 0})
	d := ip6defrag.NewIPv6Defragmenter()
	var sent []sentFrag
	for i, o := range ops {
		if o.kind != "frag" {
			continue
		}
		t := i + 1
		fi := t
		n := o.hi - o.lo + o.tail
		payload := fill(o.key, fi, o.lo, n)
		sent = append(sent, sentFrag{o.key, fi, o.lo, o.lo + n})
		ip := &layers.IPv6{Version: 6, HopLimit: 9, NextHeader: layers.IPProtocolIPv6Fragment, SrcIP: make([]byte, 16), DstIP: make([]byte, 16)}
		fg := &layers.IPv6Fragment{NextHeader: layers.IPProtocolUDP, FragmentOffset: uint16(o.lo / 8), MoreFragments: o.mf, Identification: uint32(7000 + o.key)}
		fg.Payload = payload
		ev := vh.M{"op": "frag", "sc": sc, "key": o.key, "fi": fi, "lo": o.lo, "hi": o.lo + n, "mf": o.mf, "ts": t,
			"runs": []run{}, "plen": 0, "length": 0, "flags": 0, "fragoff": 0, "ihl": 0, "sane": true}
		var out *layers.IPv6
		msg, site, p := vh.Guard(func() { out = d.DefragIPv6(ip, fg) })
		switch {
		case p:
			ev["res"] = "panic"
			ev["msg"] = msg
			ev["site"] = site
		case out == nil:
			ev["res"] = "nil"
		default:
			ev["res"] = "dgram"
			ev["runs"] = decode(out.Payload, sent)
			ev["plen"] = len(out.Payload)
		}
		tr.Emit(ev)
		if out != nil {
			return // the IPv6 defragmenter keeps completed datagrams; what follows is outside the property
		}
	}
}

func parseTLC(line []byte, unit int) ([]op, error) {
	var raw [][]interface{}
	if err := json.Unmarshal(line, &raw); err != nil {
		return nil, err
	}
	var ops []op
	for _, r := range raw {
		switch r[0].(string) {
		case "frag":
			ops = append(ops, op{kind: "frag", key: int(r[1].(float64)), lo: int(r[2].(float64)) * unit, hi: int(r[3].(float64)) * unit, mf: r[4].(bool)})
		case "discard":
			ops = append(ops, op{kind: "discard", t: int(r[1].(float64))})
		}
	}
	return ops, nil
}

// benign random datagram: partition at 8-byte boundaries, random order, optional duplicate, optional interleaving
func randomBenign(r *vh.Rand, total int, maxFrags int) []op {
	nfr := 2 + r.Intn(maxFrags-1)
	cuts := map[int]bool{}
	units := (total + 7) / 8
	// cuts at 8-byte boundaries; the final fragment keeps at least 8 bytes so that even an odd tail identifies itself
	for len(cuts) < nfr-1 && len(cuts) < units-2 {
		cuts[(1+r.Intn(units-2))*8] = true
	}
	var bounds []int
	for c := range cuts {
		bounds = append(bounds, c)
	}
	bounds = append(bounds, 0, total)
	for i := range bounds { // sort
		for j := i + 1; j < len(bounds); j++ {
			if bounds[j] < bounds[i] {
				bounds[i], bounds[j] = bounds[j], bounds[i]
			}
		}
	}
	var ops []op
	for i := 0; i+1 < len(bounds); i++ {
		o := op{kind: "frag", key: 1, lo: bounds[i], hi: bounds[i+1], mf: i+2 < len(bounds)}
		if !o.mf && (o.hi-o.lo)%8 != 0 {
			// final fragment with a length that is not a multiple of 8: keep lo/hi in bytes
		}
		ops = append(ops, o)
	}
	for i := len(ops) - 1; i > 0; i-- {
		j := r.Intn(i + 1)
		ops[i], ops[j] = ops[j], ops[i]
	}
	if r.Intn(3) == 0 { // duplicate one fragment somewhere before the end
		k := r.Intn(len(ops))
		pos := r.Intn(len(ops))
		ops = append(ops[:pos], append([]op{ops[k]}, ops[pos:]...)...)
	}
	return ops
}

func randomHostile(r *vh.Rand) []op {
	var ops []op
	n := 2 + r.Intn(5)
	for i := 0; i < n; i++ {
		lo := r.Intn(6) * 8
		ln := (1 + r.Intn(4)) * 8
		o := op{kind: "frag", key: 1 + r.Intn(2), lo: lo, hi: lo + ln, mf: r.Intn(3) != 0}
		switch r.Intn(12) {
		case 0:
			o.hi = o.lo + 1 + r.Intn(7) // undersized
		case 1:
			o.lo = 8184 * 8 // beyond the maximum offset
			o.hi = o.lo + 8
		case 2:
			o.lo = 8100 * 8
			o.hi = o.lo + 1400 // overruns 65535
		case 3:
			ops = append(ops, op{kind: "discard", t: r.Intn(i + 2)})
		}
		ops = append(ops, o)
	}
	return ops
}

func main() {
	in := flag.String("scenarios", "", "ndjson of TLC-exported behaviours")
	out := flag.String("trace", "trace.ndjson", "trace output")
	nrand := flag.Int("rand", 0, "random scenarios per class")
	seed := flag.Uint64("seed", 1, "seed")
	big := flag.Int("big", 0, "number of large (up to 65515 byte) benign datagrams")
	flag.Parse()
	tr := vh.NewTrace(*out)
	sc := 0
	if *in != "" {
		f, err := os.Open(*in)
		if err != nil {
			vh.Fatal(err)
		}
		rd := bufio.NewScanner(f)
		rd.Buffer(make([]byte, 1<<20), 1<<24)
		n := 0
		for rd.Scan() {
			n++
			unit := []int{8, 8, 24, 16}[n%4]
			ops, err := parseTLC(rd.Bytes(), unit)
			if err != nil {
				vh.Fatal("bad scenario", err)
			}
			sc++
			runV4(tr, sc, ops, []int{5, 6, 65}[n%3]) // 65: options in the offset-0 fragment only (not copied into the others)
		}
	}
	r := vh.NewRand(*seed)
	for i := 0; i < *nrand; i++ {
		sc++
		runV4(tr, sc, randomBenign(r, 24+8*r.Intn(40)+r.Intn(2)*5, 6), 5+r.Intn(2))
		sc++
		runV4(tr, sc, randomHostile(r), 5+r.Intn(2))
		sc++
		v6 := randomBenign(r, 24+8*r.Intn(40), 5)
		runV6(tr, sc, v6)
	}
	// boundary datagrams: the last fragment sits at the maximum legal offset field (8183)
	for _, total := range []int{65515, 65472, 65468} {
		for _, order := range []int{0, 1} {
			ops := []op{{kind: "frag", key: 1, lo: 0, hi: 32000, mf: true}, {kind: "frag", key: 1, lo: 32000, hi: 65464, mf: true},
				{kind: "frag", key: 1, lo: 65464, hi: total, mf: false}}
			if order == 1 {
				ops[0], ops[2] = ops[2], ops[0]
			}
			sc++
			runV4(tr, sc, ops, 5)
		}
	}
	for i := 0; i < *big; i++ {
		sc++
		total := 60000 + r.Intn(5516)
		if i == 0 {
			total = 65515
		}
		runV4(tr, sc, randomBenign(r, total-20*0, 40), 5)
	}
	tr.Close()
	fmt.Printf("{\"scenarios\":%d,\"events\":%d}\n", sc, tr.N)
}
