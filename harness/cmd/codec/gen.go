package main

// Generators for C06: concrete layer values for the shapes and stacks that TLC enumerated from WireGen.tla.
// TLC decides the structure (layer kinds, list entries (type, length, alignment), optional GRE fields, payload
// length, stacking and the codes that link the layers); this file only fills in in-range scalar values and
// option data from the seeded PRNG.

import (
	"encoding/binary"
	"net"

	"github.com/gopacket/gopacket"
	"github.com/gopacket/gopacket/layers"
	"verif/harness/vh"
)

type behLayer struct {
	T    string  `json:"t"`
	List [][]int `json:"list"`
	Hbh  bool    `json:"hbh"`
	Gf   []bool  `json:"gf"`
	Code int     `json:"code"`
}

type beh struct {
	Kind   string     `json:"kind"`
	T      string     `json:"t"`
	List   [][]int    `json:"list"`
	Gf     []bool     `json:"gf"`
	Pl     int        `json:"pl"`
	Layers []behLayer `json:"layers"`
}

func ip4(r *vh.Rand) net.IP {
	return net.IP{10, byte(r.Intn(256)), byte(r.Intn(256)), byte(1 + r.Intn(250))}
}
func ip6(r *vh.Rand) net.IP {
	b := r.Bytes(16)
	b[0], b[1] = 0x20, 0x01
	return net.IP(b)
}
func mac(r *vh.Rand) net.HardwareAddr { b := r.Bytes(6); b[0] &= 0xfe; return net.HardwareAddr(b) }

func genPayload(r *vh.Rand, n int) []byte {
	if n > 4096 { // large payloads: a cheap pattern
		b := make([]byte, n)
		for i := range b {
			b[i] = byte(i*7 + n)
		}
		return b
	}
	return r.Bytes(n)
}

func genIPv4(r *vh.Rand, list [][]int, proto int) *layers.IPv4 {
	ip := &layers.IPv4{Version: 4, TOS: uint8(r.Intn(256)), Id: uint16(r.Intn(65536)), TTL: uint8(1 + r.Intn(255)),
		Protocol: layers.IPProtocol(proto), SrcIP: ip4(r), DstIP: ip4(r)}
	if r.Bool() {
		ip.Flags = layers.IPv4DontFragment
	}
	for _, e := range list {
		o := layers.IPv4Option{OptionType: uint8(e[0]), OptionLength: uint8(e[1])}
		if e[0] > 1 {
			o.OptionData = r.Bytes(e[1] - 2)
		}
		ip.Options = append(ip.Options, o)
	}
	return ip
}

func genTCP(r *vh.Rand, list [][]int) *layers.TCP {
	t := &layers.TCP{SrcPort: layers.TCPPort(40000 + r.Intn(1000)), DstPort: layers.TCPPort(41000 + r.Intn(1000)),
		Seq: uint32(r.U64()), Ack: uint32(r.U64()), Window: uint16(r.Intn(65536)), Urgent: uint16(r.Intn(3)),
		SYN: r.Bool(), ACK: r.Bool(), PSH: r.Bool(), FIN: r.Bool(), ECE: r.Bool(), NS: r.Bool()}
	for _, e := range list {
		o := layers.TCPOption{OptionType: layers.TCPOptionKind(e[0]), OptionLength: uint8(e[1])}
		if e[0] > 1 {
			o.OptionData = r.Bytes(e[1] - 2)
		}
		t.Options = append(t.Options, o)
	}
	return t
}

func genUDP(r *vh.Rand) *layers.UDP {
	return &layers.UDP{SrcPort: layers.UDPPort(40000 + r.Intn(1000)), DstPort: layers.UDPPort(41000 + r.Intn(1000))}
}

func tlvOpts(r *vh.Rand, list [][]int) []*layers.IPv6HopByHopOption {
	var out []*layers.IPv6HopByHopOption
	for _, e := range list {
		o := &layers.IPv6HopByHopOption{OptionType: uint8(e[0]), OptionLength: uint8(e[1]), OptionData: r.Bytes(e[1]),
			OptionAlignment: [2]uint8{uint8(e[2]), uint8(e[3])}}
		out = append(out, o)
	}
	return out
}

func genHopByHop(r *vh.Rand, list [][]int, nh int) *layers.IPv6HopByHop {
	h := &layers.IPv6HopByHop{}
	h.NextHeader = layers.IPProtocol(nh)
	h.Options = tlvOpts(r, list)
	return h
}

func genDestination(r *vh.Rand, list [][]int, nh int) *layers.IPv6Destination {
	h := &layers.IPv6Destination{}
	h.NextHeader = layers.IPProtocol(nh)
	for _, o := range tlvOpts(r, list) {
		h.Options = append(h.Options, (*layers.IPv6DestinationOption)(o))
	}
	return h
}

func genIPv6(r *vh.Rand, nh int, hbh bool, list [][]int) *layers.IPv6 {
	ip := &layers.IPv6{Version: 6, TrafficClass: uint8(r.Intn(256)), FlowLabel: uint32(r.Intn(1 << 20)),
		HopLimit: uint8(1 + r.Intn(255)), NextHeader: layers.IPProtocol(nh), SrcIP: ip6(r), DstIP: ip6(r)}
	if hbh {
		ip.HopByHop = genHopByHop(r, list, nh)
		ip.NextHeader = layers.IPProtocolIPv6HopByHop
	}
	return ip
}

func ndpOpts(r *vh.Rand, list [][]int) layers.ICMPv6Options {
	var out layers.ICMPv6Options
	for _, e := range list {
		out = append(out, layers.ICMPv6Option{Type: layers.ICMPv6Opt(e[0]), Data: r.Bytes(e[1])})
	}
	return out
}

func genNDP(r *vh.Rand, t string, list [][]int) gopacket.SerializableLayer {
	o := ndpOpts(r, list)
	switch t {
	case "ICMPv6RouterSolicitation":
		return &layers.ICMPv6RouterSolicitation{Options: o}
	case "ICMPv6RouterAdvertisement":
		return &layers.ICMPv6RouterAdvertisement{HopLimit: uint8(r.Intn(256)), Flags: uint8(r.Intn(256)),
			RouterLifetime: uint16(r.Intn(65536)), ReachableTime: uint32(r.U64()), RetransTimer: uint32(r.U64()), Options: o}
	case "ICMPv6NeighborSolicitation":
		return &layers.ICMPv6NeighborSolicitation{TargetAddress: ip6(r), Options: o}
	case "ICMPv6NeighborAdvertisement":
		return &layers.ICMPv6NeighborAdvertisement{Flags: uint8(r.Intn(8) << 5), TargetAddress: ip6(r), Options: o}
	case "ICMPv6Redirect":
		return &layers.ICMPv6Redirect{TargetAddress: ip6(r), DestinationAddress: ip6(r), Options: o}
	}
	return nil
}

func genGRE(r *vh.Rand, gf []bool, list [][]int, proto int) *layers.GRE {
	g := &layers.GRE{ChecksumPresent: gf[0], RoutingPresent: gf[1], KeyPresent: gf[2], SeqPresent: gf[3], AckPresent: gf[4],
		Protocol: layers.EthernetType(proto)}
	if g.KeyPresent {
		g.Key = uint32(r.U64()) | 1
	}
	if g.SeqPresent {
		g.Seq = uint32(r.U64()) | 1
	}
	if g.AckPresent {
		g.Ack = uint32(r.U64()) | 1
		// the library keeps the acknowledgment bit twice: as AckPresent and as the top bit of the 5-bit Flags
		// (RFC 1701 layout); a value is in range when the two agree
		g.Flags = 0x10
	}
	if g.ChecksumPresent || g.RoutingPresent {
		g.Offset = uint16(r.Intn(4))
	}
	tail := &g.GRERouting
	for _, e := range list {
		sre := &layers.GRERouting{AddressFamily: uint16(e[0]), SREOffset: uint8(r.Intn(4)), SRELength: uint8(e[1]),
			RoutingInformation: r.Bytes(e[1])}
		*tail = sre
		tail = &sre.Next
	}
	return g
}

func u32b(x uint32) []int {
	var b [4]byte
	binary.BigEndian.PutUint32(b[:], x)
	return vh.Ints(b[:])
}

// genShape: the layer for one TLC shape (single layer over a payload)
func genShape(r *vh.Rand, b *beh) gopacket.SerializableLayer {
	switch b.T {
	case "IPv4":
		return genIPv4(r, b.List, 253)
	case "TCP":
		return genTCP(r, b.List)
	case "IPv6HopByHop":
		return genHopByHop(r, b.List, 59)
	case "IPv6Destination":
		return genDestination(r, b.List, 59)
	case "GRE":
		return genGRE(r, b.Gf, b.List, 0x0800)
	default:
		return genNDP(r, b.T, b.List)
	}
}

// genStack: the real layers for one TLC stack; every code that links two layers is the one TLC exported.
func genStack(r *vh.Rand, b *beh) []gopacket.SerializableLayer {
	var out []gopacket.SerializableLayer
	for _, l := range b.Layers {
		code := l.Code
		if code < 0 {
			code = 253 // "use for experimentation": nothing registered, decodes as payload
		}
		switch l.T {
		case "Ethernet":
			out = append(out, &layers.Ethernet{SrcMAC: mac(r), DstMAC: mac(r), EthernetType: layers.EthernetType(code)})
		case "Dot1Q":
			out = append(out, &layers.Dot1Q{Priority: uint8(r.Intn(8)), DropEligible: r.Bool(), VLANIdentifier: uint16(r.Intn(4096)),
				Type: layers.EthernetType(code)})
		case "IPv4":
			out = append(out, genIPv4(r, l.List, code))
		case "IPv6":
			out = append(out, genIPv6(r, code, l.Hbh, l.List))
		case "IPv6Destination":
			out = append(out, genDestination(r, l.List, code))
		case "IPv6Routing":
			x := &layers.IPv6Routing{RoutingType: 0, SegmentsLeft: 1, Reserved: []byte{0, 0, 0, 0}, SourceRoutingIPs: []net.IP{ip6(r)}}
			x.NextHeader = layers.IPProtocol(code)
			x.HeaderLength = 2
			out = append(out, x)
		case "IPv6Fragment":
			out = append(out, &layers.IPv6Fragment{NextHeader: layers.IPProtocol(code), FragmentOffset: uint16(r.Intn(100)),
				MoreFragments: r.Bool(), Identification: uint32(r.U64())})
		case "TCP":
			out = append(out, genTCP(r, l.List))
		case "UDP":
			out = append(out, genUDP(r))
		case "ICMPv4":
			out = append(out, &layers.ICMPv4{TypeCode: layers.CreateICMPv4TypeCode(8, 0), Id: uint16(r.Intn(65536)), Seq: uint16(r.Intn(65536))})
		case "ICMPv6":
			tc := uint8(1) // destination unreachable: payload follows
			if l.Code >= 0 {
				tc = uint8(l.Code)
			}
			out = append(out, &layers.ICMPv6{TypeCode: layers.CreateICMPv6TypeCode(tc, 0)})
		case "ICMPv6Echo":
			out = append(out, &layers.ICMPv6Echo{Identifier: uint16(r.Intn(65536)), SeqNumber: uint16(r.Intn(65536))})
		case "GRE":
			out = append(out, genGRE(r, l.Gf, l.List, code))
		case "Payload":
			// appended by the caller
		default:
			if x := genNDP(r, l.T, l.List); x != nil {
				out = append(out, x)
			} else {
				vh.Fatal("unknown layer in stack:", l.T)
			}
		}
	}
	return out
}
