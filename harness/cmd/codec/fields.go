package main

// Canonical projection of a layer value to "field values" for the round-trip law of C06.
//
// The key of a layer is a digest over its EXPORTED fields, in declaration order, with
//   - nil slices/maps equal to empty ones, pointers followed;
//   - the embedded BaseLayer (Contents / Payload) left out: the bytes and the payload are compared separately;
//   - padding entries of option lists left out, because padding is not a field value but wire residue that the
//     decoder reports as entries: IPv4 / TCP options from the first End-of-Option-List on, IPv6 Pad1 / PadN TLVs;
//   - fields that are no input of the serializer and are only filled in by the decoder (or only read by the
//     serializer as a hint) left out - see skipField.
// Everything else (every header field, every list entry in order, every option's data) is part of the key.

import (
	"fmt"
	"hash/fnv"
	"reflect"
	"sort"
	"strings"
)

// skipField: "StructType.Field" pairs outside the key.
var skipField = map[string]string{
	"DNSResourceRecord.Data":                "raw RDATA as found on the wire (compression pointers included); the serializer writes the typed fields",
	"IPv4.Padding":                          "wire residue after End-of-Option-List; the serializer always pads with zeros",
	"TCP.Padding":                           "wire residue after End-of-Option-List; FixLengths overwrites it",
	"ipv6ExtensionBase.ActualLength":        "decoder bookkeeping (header length in bytes), not read by the serializer",
	"IPv6HopByHopOption.ActualLength":       "decoder bookkeeping, not read by the serializer",
	"IPv6DestinationOption.ActualLength":    "decoder bookkeeping, not read by the serializer",
	"IPv6HopByHopOption.OptionAlignment":    "serializer hint (where to insert padding), not on the wire",
	"IPv6DestinationOption.OptionAlignment": "serializer hint (where to insert padding), not on the wire",
}

type kv struct{ path, val string }

func flatten(v interface{}) []kv {
	var out []kv
	walk(reflect.ValueOf(v), "", 0, &out)
	return out
}

func fieldKey(v interface{}) string {
	h := fnv.New64a()
	for _, e := range flatten(v) {
		h.Write([]byte(e.path))
		h.Write([]byte{'='})
		h.Write([]byte(e.val))
		h.Write([]byte{';'})
	}
	return fmt.Sprintf("%016x", h.Sum64())
}

// fieldDiff names the first field on which two values differ ("" if none) - diagnostic only.
func fieldDiff(a, b interface{}) string {
	fa, fb := flatten(a), flatten(b)
	for i := 0; i < len(fa) && i < len(fb); i++ {
		if fa[i] != fb[i] {
			p := fa[i].path
			if fa[i].path != fb[i].path {
				// different shape: report the common prefix up to the list index
				p = commonField(fa[i].path, fb[i].path)
			}
			return stripIdx(p)
		}
	}
	if len(fa) != len(fb) {
		if len(fa) > len(fb) {
			return stripIdx(fa[len(fb)].path)
		}
		return stripIdx(fb[len(fa)].path)
	}
	return ""
}

func commonField(a, b string) string {
	n := 0
	for n < len(a) && n < len(b) && a[n] == b[n] {
		n++
	}
	s := a[:n]
	if i := strings.LastIndexAny(s, ".["); i > 0 {
		s = s[:i]
	}
	return s
}

// stripIdx removes list indices so that a signature does not depend on the position in a list
func stripIdx(p string) string {
	var sb strings.Builder
	skip := false
	for _, c := range p {
		if c == '[' {
			skip = true
			sb.WriteString("[]")
			continue
		}
		if c == ']' {
			skip = false
			continue
		}
		if !skip {
			sb.WriteRune(c)
		}
	}
	return strings.TrimPrefix(sb.String(), ".")
}

func isPadEntry(owner string, field string, e reflect.Value) (pad bool, cut bool) {
	for e.Kind() == reflect.Ptr || e.Kind() == reflect.Interface {
		if e.IsNil() {
			return false, false
		}
		e = e.Elem()
	}
	if e.Kind() != reflect.Struct {
		return false, false
	}
	ot := e.FieldByName("OptionType")
	if !ot.IsValid() {
		return false, false
	}
	var k uint64
	switch ot.Kind() {
	case reflect.Uint8, reflect.Uint16, reflect.Uint32, reflect.Uint:
		k = ot.Uint()
	default:
		return false, false
	}
	switch owner + "." + field {
	case "IPv4.Options", "TCP.Options":
		return false, k == 0 // everything from the first EOL on is padding
	case "IPv6HopByHop.Options", "IPv6Destination.Options":
		return k == 0 || k == 1, false
	}
	return false, false
}

func walk(v reflect.Value, path string, depth int, out *[]kv) {
	if depth > 14 {
		*out = append(*out, kv{path, "<deep>"})
		return
	}
	if !v.IsValid() {
		*out = append(*out, kv{path, "nil"})
		return
	}
	switch v.Kind() {
	case reflect.Ptr, reflect.Interface:
		if v.IsNil() {
			*out = append(*out, kv{path, "nil"})
			return
		}
		walk(v.Elem(), path, depth+1, out)
	case reflect.Struct:
		t := v.Type()
		for i := 0; i < v.NumField(); i++ {
			f := t.Field(i)
			if f.Anonymous && f.Type.Name() == "BaseLayer" {
				continue
			}
			if f.PkgPath != "" && !f.Anonymous {
				continue
			}
			if f.PkgPath != "" && f.Anonymous && v.Field(i).Kind() != reflect.Struct {
				continue
			}
			if _, ok := skipField[t.Name()+"."+f.Name]; ok {
				continue
			}
			fv := v.Field(i)
			if fv.Kind() == reflect.Slice && fv.Type().Elem().Kind() != reflect.Uint8 {
				n := 0
				for j := 0; j < fv.Len(); j++ {
					pad, cut := isPadEntry(t.Name(), f.Name, fv.Index(j))
					if cut {
						break
					}
					if pad {
						continue
					}
					walk(fv.Index(j), fmt.Sprintf("%s.%s[%d]", path, f.Name, n), depth+1, out)
					n++
				}
				*out = append(*out, kv{path + "." + f.Name + ".len", fmt.Sprint(n)})
				continue
			}
			name := f.Name
			if f.Anonymous {
				// promoted fields keep their own names (ipv6ExtensionBase.NextHeader -> .NextHeader)
				walk(fv, path, depth+1, out)
				continue
			}
			walk(fv, path+"."+name, depth+1, out)
		}
	case reflect.Slice, reflect.Array:
		if v.Kind() == reflect.Slice && v.Type().Elem().Kind() == reflect.Uint8 {
			*out = append(*out, kv{path, fmt.Sprintf("%x", v.Bytes())})
			return
		}
		for i := 0; i < v.Len(); i++ {
			walk(v.Index(i), fmt.Sprintf("%s[%d]", path, i), depth+1, out)
		}
		*out = append(*out, kv{path + ".len", fmt.Sprint(v.Len())})
	case reflect.Map:
		keys := v.MapKeys()
		strs := make([]string, len(keys))
		idx := map[string]reflect.Value{}
		for i, k := range keys {
			strs[i] = fmt.Sprintf("%v", k.Interface())
			idx[strs[i]] = k
		}
		sort.Strings(strs)
		for _, s := range strs {
			walk(v.MapIndex(idx[s]), path+"{"+s+"}", depth+1, out)
		}
		*out = append(*out, kv{path + ".len", fmt.Sprint(len(strs))})
	case reflect.Func, reflect.Chan, reflect.UnsafePointer:
		*out = append(*out, kv{path, "<fn>"})
	case reflect.Bool:
		*out = append(*out, kv{path, fmt.Sprint(v.Bool())})
	case reflect.Int, reflect.Int8, reflect.Int16, reflect.Int32, reflect.Int64:
		*out = append(*out, kv{path, fmt.Sprint(v.Int())})
	case reflect.Uint, reflect.Uint8, reflect.Uint16, reflect.Uint32, reflect.Uint64, reflect.Uintptr:
		*out = append(*out, kv{path, fmt.Sprint(v.Uint())})
	case reflect.Float32, reflect.Float64:
		*out = append(*out, kv{path, fmt.Sprintf("%g", v.Float())})
	case reflect.String:
		*out = append(*out, kv{path, fmt.Sprintf("%q", v.String())})
	default:
		*out = append(*out, kv{path, "<?>"})
	}
}
