package main

// C07: serialization never panics; output depends only on layer, payload, options.
//
// events
//   hist  one per TLC-exported history: the stale bytes the real buffer really exposes after the history
//         (PrependBytes(before) / AppendBytes(after) without writing), next to the model's prediction
//   case  a layer value: (input bytes, first layer type, index of the layer in the decoded packet)
//   ser   one SerializeTo call of that layer - decoded afresh for this call - over its payload into a buffer
//         with history h, repetition rep (2 = again into the same buffer): ok+digest | err | panic+site

import (
	"bytes"
	"fmt"

	"github.com/gopacket/gopacket"
	"github.com/gopacket/gopacket/layers"
	"verif/harness/corpus"
	"verif/harness/vh"
)

type histT struct {
	Ops         [][]interface{} `json:"ops"`
	F           int             `json:"f"`
	Before      int             `json:"before"`
	After       int             `json:"after"`
	StaleBefore int             `json:"staleBefore"`
	StaleAfter  int             `json:"staleAfter"`
	Stale64     int             `json:"stale64"`
	LayersLeft  int             `json:"layersLeft"`
	Pushed      []int           `json:"pushed"`
}

// history: something that happened to a buffer before the serializer under test uses it
type history interface {
	build() gopacket.SerializeBuffer
	name() string
	fillByte() byte
}

func (h *histT) fillByte() byte { return byte(h.F) }

// realHist: the buffer was used before by gopacket.SerializeLayers / SerializePacket of other REAL stacks
// (built ones with stand-alone IPv6 extension headers, decoded corpus packets); beyond SerHistory.tla's bound.
type realHist struct {
	nm string
	mk func() gopacket.SerializeBuffer
}

// build: the real stack(s), then - so that stale bytes are recognisable as such - the region they occupied is
// overwritten with 0xAA through the buffer's own API (Clear, PrependBytes, AppendBytes).
func (h *realHist) build() gopacket.SerializeBuffer {
	buf := h.mk()
	n := len(buf.Bytes())
	buf.Clear()
	if w, err := buf.PrependBytes(n); err == nil {
		fill(w, 0xAA)
	}
	if w, err := buf.AppendBytes(64); err == nil {
		fill(w, 0xAA)
	}
	return buf
}
func (h *realHist) name() string   { return h.nm + ";clear;prepend;append64;f=170" }
func (h *realHist) fillByte() byte { return 0xAA }

// model type codes of SerHistory.tla -> gopacket layer types
var modelTypes = map[int]gopacket.LayerType{1: layers.LayerTypeEthernet, 2: layers.LayerTypeIPv4, 3: layers.LayerTypeTCP,
	4: gopacket.LayerTypePayload, 5: layers.LayerTypeIPv6, 6: layers.LayerTypeUDP, 7: layers.LayerTypeIPv6HopByHop,
	8: layers.LayerTypeIPv6Destination, 9: layers.LayerTypeIPv6Fragment}

// fillLayer is "another layer" that used the buffer earlier: it writes the fill byte into all it obtains.
type fillLayer struct {
	t, pre, app int
	f           byte
}

func (l *fillLayer) LayerType() gopacket.LayerType {
	if t, ok := modelTypes[l.t]; ok {
		return t
	}
	return gopacket.LayerType(1900 + l.t)
}
func (l *fillLayer) SerializeTo(b gopacket.SerializeBuffer, _ gopacket.SerializeOptions) error {
	w, err := b.PrependBytes(l.pre)
	if err != nil {
		return err
	}
	fill(w, l.f)
	w, err = b.AppendBytes(l.app)
	if err != nil {
		return err
	}
	fill(w, l.f)
	return nil
}

func fill(w []byte, f byte) {
	for i := range w {
		w[i] = f
	}
}

func num(x interface{}) int { return int(x.(float64)) }

// build replays the history on a real buffer.
func (h *histT) build() gopacket.SerializeBuffer {
	var buf gopacket.SerializeBuffer
	f := byte(h.F)
	for _, op := range h.Ops {
		switch op[0].(string) {
		case "fresh":
			buf = gopacket.NewSerializeBuffer()
		case "new":
			buf = gopacket.NewSerializeBufferExpectedSize(num(op[1]), num(op[2]))
		case "prepend":
			w, _ := buf.PrependBytes(num(op[1]))
			fill(w, f)
		case "append":
			w, _ := buf.AppendBytes(num(op[1]))
			fill(w, f)
		case "serlayers":
			var ls []gopacket.SerializableLayer
			for _, r := range op[1].([]interface{}) {
				a := r.([]interface{})
				ls = append(ls, &fillLayer{t: num(a[0]), pre: num(a[1]), app: num(a[2]), f: f})
			}
			gopacket.SerializeLayers(buf, gopacket.SerializeOptions{}, ls...)
		case "clear":
			buf.Clear()
		default:
			vh.Fatal("unknown history op", op[0])
		}
	}
	return buf
}

func countBytes(w []byte, f byte) (nf, other int) {
	for _, x := range w {
		if x == f && f != 0 {
			nf++
		} else if x != 0 {
			other++
		}
	}
	return
}

func (h *histT) name() string {
	s := ""
	for _, op := range h.Ops {
		s += fmt.Sprint(op...) + ";"
	}
	return fmt.Sprintf("%sf=%d", s, h.F)
}

func probe(tr *vh.Trace, hi int, h *histT) {
	buf := h.build()
	ev := vh.M{"op": "hist", "h": hi, "f": h.F, "before": h.Before, "after": h.After,
		"staleBefore": h.StaleBefore, "staleAfter": h.StaleAfter, "nops": len(h.Ops)}
	gb, ob, ga, oa := 0, 0, 0, 0
	nLayers := len(buf.Layers())
	lenOK := true
	if len(buf.Bytes()) != 0 {
		lenOK = false
	}
	if h.Before > 0 {
		w, _ := buf.PrependBytes(h.Before)
		gb, ob = countBytes(w, byte(h.F))
		lenOK = lenOK && len(w) == h.Before
	}
	if h.After > 0 {
		w, _ := buf.AppendBytes(h.After)
		ga, oa = countBytes(w, byte(h.F))
		lenOK = lenOK && len(w) == h.After
	}
	ev["gotBefore"], ev["gotAfter"], ev["other"], ev["empty"] = gb, ga, ob+oa, lenOK
	ev["layersLeft"], ev["gotLayers"] = h.LayersLeft, nLayers
	tr.Emit(ev)
}

type serOut struct {
	res  string
	out  []byte
	site string
	msg  string
}

// serOne: the payload is placed first (as SerializeLayers does with a Payload layer), then the layer.
func serOne(buf gopacket.SerializeBuffer, l gopacket.SerializableLayer, payload []byte, o gopacket.SerializeOptions) serOut {
	var err error
	msg, site, p := vh.Guard(func() {
		buf.Clear()
		w, e := buf.PrependBytes(len(payload))
		if e != nil {
			err = e
			return
		}
		copy(w, payload)
		err = l.SerializeTo(buf, o)
	})
	if p {
		if len(msg) > 100 {
			msg = msg[:100]
		}
		return serOut{res: "panic", site: vh.SiteSig(corpus.Repo(), site), msg: msg}
	}
	if err != nil {
		m := err.Error()
		if len(m) > 100 {
			m = m[:100]
		}
		return serOut{res: "err", msg: m}
	}
	return serOut{res: "ok", out: append([]byte(nil), buf.Bytes()...)}
}

func optsOf(i int) gopacket.SerializeOptions {
	return gopacket.SerializeOptions{FixLengths: i&1 != 0, ComputeChecksums: i&2 != 0}
}

// freshLayer decodes the input again and returns layer j with its payload and field digest.
func freshLayer(in input, j int) (gopacket.SerializableLayer, []byte, string, string) {
	var p gopacket.Packet
	_, _, pan := vh.Guard(func() {
		p = gopacket.NewPacket(in.data, in.first, gopacket.Default)
		p.Layers()
	})
	if pan || p == nil {
		return nil, nil, "", ""
	}
	ls := p.Layers()
	if j >= len(ls) {
		return nil, nil, "", ""
	}
	sl, ok := ls[j].(gopacket.SerializableLayer)
	if !ok || isNil(ls[j]) {
		return nil, nil, "", ""
	}
	linkChecksumNet(ls[:j+1])
	var dg string
	var pl []byte
	_, _, pan = vh.Guard(func() {
		dg = vh.Digest(ls[j])
		pl = ls[j].LayerPayload()
	})
	if pan {
		return nil, nil, "", ""
	}
	return sl, pl, dg, ls[j].LayerType().String()
}

// diffDiag: where two outputs differ (diagnostic only: the verdict is the digest inequality judged in TLA+)
func diffDiag(ref, got []byte, f byte) vh.M {
	d := vh.M{"refLen": len(ref), "gotLen": len(got)}
	n := len(ref)
	if len(got) < n {
		n = len(got)
	}
	lo, hi, cnt := -1, -1, 0
	stale := true
	for i := 0; i < n; i++ {
		if ref[i] != got[i] {
			if lo < 0 {
				lo = i
			}
			hi = i + 1
			cnt++
			if got[i] != f || f == 0 {
				stale = false
			}
		}
	}
	d["lo"], d["hi"], d["cnt"] = lo, hi, cnt
	// offsets counted from the end help when the header is behind a variable part
	d["loFromEnd"] = len(got) - lo
	if len(ref) != len(got) {
		d["kind"] = "length"
	} else if cnt > 0 && stale {
		d["kind"] = "stale-fill-byte"
	} else {
		d["kind"] = "bytes"
	}
	return d
}

// subject: a layer value that can be produced afresh for every call
type subject struct {
	name, first, typ, hex string
	j, dlen               int
	fresh                 func() (gopacket.SerializableLayer, []byte, string)
}

func hasType(h *histT, t int) bool {
	for _, x := range h.Pushed {
		if x == t {
			return true
		}
	}
	return false
}

// realHistories: buffers that earlier held other real stacks, in particular stacks with stand-alone IPv6
// extension-header layers (those are recorded in Layers(), which IPv6.SerializeTo consults).
func realHistories(fx []corpus.Fixture) []history {
	both := gopacket.SerializeOptions{FixLengths: true, ComputeChecksums: true}
	built := func(nm string, mk func(r *vh.Rand) ([]gopacket.SerializableLayer, int), times int) history {
		return &realHist{nm: nm, mk: func() gopacket.SerializeBuffer {
			buf := gopacket.NewSerializeBuffer()
			for k := 0; k < times; k++ {
				ls, n := mk(vh.NewRand(77))
				ls = append(ls, gopacket.Payload(genPayload(vh.NewRand(78), n)))
				vh.Guard(func() { gopacket.SerializeLayers(buf, both, ls...) })
			}
			return buf
		}}
	}
	eth := func(r *vh.Rand) *layers.Ethernet {
		return &layers.Ethernet{SrcMAC: mac(r), DstMAC: mac(r), EthernetType: layers.EthernetTypeIPv6}
	}
	hbhStack := func(r *vh.Rand) ([]gopacket.SerializableLayer, int) {
		i6 := genIPv6(r, 0, false, nil)
		u := genUDP(r)
		u.SetNetworkLayerForChecksum(i6)
		return []gopacket.SerializableLayer{eth(r), i6, genHopByHop(r, [][]int{{5, 2, 2, 0}}, 17), u}, 100
	}
	dstStack := func(r *vh.Rand) ([]gopacket.SerializableLayer, int) {
		i6 := genIPv6(r, 60, false, nil)
		t := genTCP(r, nil)
		t.SetNetworkLayerForChecksum(i6)
		return []gopacket.SerializableLayer{eth(r), i6, genDestination(r, [][]int{{62, 1, 0, 0}}, 6), t}, 1000
	}
	fragStack := func(r *vh.Rand) ([]gopacket.SerializableLayer, int) {
		return []gopacket.SerializableLayer{eth(r), genIPv6(r, 44, false, nil),
			&layers.IPv6Fragment{NextHeader: 17, FragmentOffset: 3, Identification: 9}}, 64
	}
	out := []history{built("real:Ethernet/IPv6/IPv6HopByHop/UDP/100", hbhStack, 1),
		built("real:Ethernet/IPv6/IPv6Destination/TCP/1000", dstStack, 1),
		built("real:Ethernet/IPv6/IPv6Fragment/64", fragStack, 1),
		built("real:Ethernet/IPv6/IPv6HopByHop/UDP/100 x3", hbhStack, 3)}
	// decoded corpus packets that contain a stand-alone hop-by-hop layer, written with SerializePacket
	nfix := 0
	for _, f := range fx {
		if nfix >= 3 || len(f.Data) > 2000 {
			continue
		}
		p := safePacket(f.Data, f.First)
		if p == nil || p.Layer(layers.LayerTypeIPv6HopByHop) == nil {
			continue
		}
		f := f
		ok := false
		vh.Guard(func() {
			linkChecksumNet(p.Layers())
			ok = gopacket.SerializePacket(gopacket.NewSerializeBuffer(), both, p) == nil
		})
		if !ok {
			continue
		}
		nfix++
		out = append(out, &realHist{nm: "real:SerializePacket(" + f.Name + ")", mk: func() gopacket.SerializeBuffer {
			buf := gopacket.NewSerializeBuffer()
			if q := safePacket(f.Data, f.First); q != nil {
				vh.Guard(func() {
					linkChecksumNet(q.Layers())
					gopacket.SerializePacket(buf, both, q)
				})
			}
			return buf
		}})
	}
	return out
}

// focusSubjects: IPv6 layers that carry their hop-by-hop header themselves - decoded from fixtures, and built
// (with and without FixLengths turning them into jumbograms).
func focusSubjects(fx []corpus.Fixture) []subject {
	var out []subject
	for _, f := range fx {
		if len(out) >= 10 || len(f.Data) > 4000 {
			continue
		}
		p := safePacket(f.Data, f.First)
		if p == nil {
			continue
		}
		for j, l := range p.Layers() {
			if i6, ok := l.(*layers.IPv6); ok && i6.HopByHop != nil {
				in := input{name: f.Name, data: f.Data, first: f.First}
				j := j
				out = append(out, subject{name: f.Name, first: f.First.String(), typ: "IPv6", hex: hexOf(f.Data), j: j, dlen: len(f.Data),
					fresh: func() (gopacket.SerializableLayer, []byte, string) {
						l, pl, dg, _ := freshLayer(in, j)
						return l, pl, dg
					}})
				break
			}
		}
	}
	built := func(nm string, hbh bool, n int) {
		out = append(out, subject{name: "built:" + nm, first: "-", typ: "IPv6", dlen: n,
			fresh: func() (gopacket.SerializableLayer, []byte, string) {
				r := vh.NewRand(4242)
				l := genIPv6(r, 253, hbh, [][]int{{5, 2, 2, 0}})
				return l, genPayload(r, n), vh.Digest(l)
			}})
	}
	built("IPv6+hbh/40", true, 40)
	built("IPv6+hbh/65527", true, 65527)
	built("IPv6/65536 (jumbogram)", false, 65536)
	built("IPv6+hbh/70001 (jumbogram)", true, 70001)
	return out
}

func runC07(tr *vh.Trace, n int, seed uint64, histFile string, khist int, maxlen int, probeH bool) map[string]int {
	var hs []*histT
	loadJSONLines(histFile, func() interface{} { return &histT{} }, func(v interface{}) { hs = append(hs, v.(*histT)) })
	if len(hs) == 0 {
		vh.Fatal("no histories (run TLC on SerHistory.tla first)")
	}
	freshIdx := 0
	var dirty, ext []int
	var all []history
	for i, h := range hs {
		all = append(all, h)
		if len(h.Ops) == 1 && h.Ops[0][0].(string) == "fresh" {
			freshIdx = i
		} else {
			dirty = append(dirty, i)
		}
		if hasType(h, 7) {
			ext = append(ext, i)
		}
		tick.Add(1)
		if probeH {
			probe(tr, i, h)
		}
	}
	fx := corpus.Load()
	var realIdx []int
	for _, h := range realHistories(fx) {
		realIdx = append(realIdx, len(all))
		all = append(all, h)
	}
	types := corpus.RegisteredTypes()
	ix := buildIndex(fx, types)
	r := vh.NewRand(seed)
	st := map[string]int{"cases": 0, "calls": 0, "histories": len(hs), "real_histories": len(realIdx), "types_indexed": len(ix.names)}
	rot := int(seed*7919) % len(dirty)
	stride := 7
	for gcd(stride, len(dirty)) != 1 {
		stride++
	}
	sc := 0
	// runSubject: 4 option sets x (fresh buffer + the histories sel() picks), twice in a row each
	runSubject := func(sub subject, sel func() []int) {
		_, pl0, dg0 := sub.fresh()
		if dg0 == "" {
			return
		}
		sc++
		st["cases"]++
		tr.Emit(vh.M{"op": "case", "sc": sc, "in": sub.name, "first": sub.first, "j": sub.j, "type": sub.typ,
			"idg": dg0, "plen": len(pl0), "dlen": sub.dlen, "hex": sub.hex})
		for o := 0; o < 4; o++ {
			var ref []byte
			haveRef := false
			for _, hi := range append([]int{freshIdx}, sel()...) {
				h := all[hi]
				buf := h.build()
				for rep := 1; rep <= 2; rep++ {
					l, pl, dg := sub.fresh()
					if l == nil {
						break
					}
					curCase.Store(fmt.Sprintf("%s first=%s layer=%d type=%s opts=%d hist=%s", sub.name, sub.first, sub.j, sub.typ, o, h.name()))
					tick.Add(1)
					so := serOne(buf, l, pl, optsOf(o))
					st["calls"]++
					ev := vh.M{"op": "ser", "sc": sc, "o": o, "h": hi, "rep": rep, "res": so.res, "idg": dg,
						"d": "", "n": len(so.out)}
					switch so.res {
					case "ok":
						ev["d"] = bdigest(so.out)
						if !haveRef {
							ref, haveRef = so.out, true
						} else if !bytes.Equal(ref, so.out) {
							ev["diag"] = diffDiag(ref, so.out, h.fillByte())
							ev["hist"] = h.name()
						}
					case "err":
						ev["msg"] = so.msg
					case "panic":
						ev["site"], ev["msg"] = so.site, so.msg
						ev["hist"] = h.name()
					}
					tr.Emit(ev)
				}
			}
		}
	}
	// 1. IPv6 layers with their own hop-by-hop header into buffers whose recorded layer list named a stand-alone
	//    hop-by-hop layer before: every real-stack history and a rotating choice of the TLC histories
	if replayIn == nil {
		for _, sub := range focusSubjects(fx) {
			st["focus_cases"]++
			runSubject(sub, func() []int {
				sel := append([]int(nil), realIdx...)
				for k := 0; k < 6 && len(ext) > 0; k++ {
					sel = append(sel, ext[(int(seed)*13+k*(1+len(ext)/6))%len(ext)])
				}
				return sel
			})
		}
	}
	// 2. the corpus
	for i := 1; i <= n; i++ {
		in, want := pickInput(r, fx, ix, types, r.Intn(10) < 6, maxlen)
		allL := r.Intn(4) == 0 || replayIn != nil
		curCase.Store(fmt.Sprintf("%s first=%s len=%d", in.name, in.first, len(in.data)))
		tick.Add(1)
		p := safePacket(in.data, in.first)
		if p == nil {
			continue
		}
		nl := len(p.Layers())
		taken := 0
		for j := 0; j < nl && taken < 6; j++ {
			l0 := p.Layers()[j]
			if !serializable(l0) {
				continue
			}
			if !allL && l0.LayerType().String() != want && want != "" {
				continue
			}
			taken++
			tick.Add(1)
			j := j
			runSubject(subject{name: in.name, first: in.first.String(), typ: l0.LayerType().String(), hex: hexOf(in.data), j: j, dlen: len(in.data),
				fresh: func() (gopacket.SerializableLayer, []byte, string) {
					l, pl, dg, _ := freshLayer(in, j)
					return l, pl, dg
				}}, func() []int {
				var sel []int
				for k := 0; k < khist; k++ {
					rot = (rot + stride) % len(dirty)
					sel = append(sel, dirty[rot])
				}
				// one real-stack history as well
				if len(realIdx) > 0 {
					sel = append(sel, realIdx[rot%len(realIdx)])
				}
				return sel
			})
		}
	}
	return st
}

func gcd(a, b int) int {
	for b != 0 {
		a, b = b, a%b
	}
	return a
}
