package main

// C07: serialization never panics; output depends only on layer, payload, options.
//
// events
//   hist  one per TLC-exported history: the stale bytes the real buffer really exposes after the history
//         (PrependBytes(before) / AppendBytes(after) without writing), next to the model's prediction
//   case  a layer value: (input bytes, first layer type, index of the layer in the decoded packet)
//   ser   one SerializeTo call of that layer - decoded afresh for this call - over its payload into a buffer
//         with history h, repetition rep (2 = again into the same buffer): ok+digest | err | panic+site

import (
	"bytes"
	"fmt"

	"github.com/gopacket/gopacket"
	"verif/harness/corpus"
	"verif/harness/vh"
)

type histT struct {
	Ops         [][]interface{} `json:"ops"`
	F           int             `json:"f"`
	Before      int             `json:"before"`
	After       int             `json:"after"`
	StaleBefore int             `json:"staleBefore"`
	StaleAfter  int             `json:"staleAfter"`
	Stale64     int             `json:"stale64"`
}

// fillLayer is "another layer" that used the buffer earlier: it writes the fill byte into all it obtains.
type fillLayer struct {
	t, pre, app int
	f           byte
}

func (l *fillLayer) LayerType() gopacket.LayerType { return gopacket.LayerType(1900 + l.t) }
func (l *fillLayer) SerializeTo(b gopacket.SerializeBuffer, _ gopacket.SerializeOptions) error {
	w, err := b.PrependBytes(l.pre)
	if err != nil {
		return err
	}
	fill(w, l.f)
	w, err = b.AppendBytes(l.app)
	if err != nil {
		return err
	}
	fill(w, l.f)
	return nil
}

func fill(w []byte, f byte) {
	for i := range w {
		w[i] = f
	}
}

func num(x interface{}) int { return int(x.(float64)) }

// build replays the history on a real buffer.
func (h *histT) build() gopacket.SerializeBuffer {
	var buf gopacket.SerializeBuffer
	f := byte(h.F)
	for _, op := range h.Ops {
		switch op[0].(string) {
		case "fresh":
			buf = gopacket.NewSerializeBuffer()
		case "new":
			buf = gopacket.NewSerializeBufferExpectedSize(num(op[1]), num(op[2]))
		case "prepend":
			w, _ := buf.PrependBytes(num(op[1]))
			fill(w, f)
		case "append":
			w, _ := buf.AppendBytes(num(op[1]))
			fill(w, f)
		case "serlayers":
			var ls []gopacket.SerializableLayer
			for _, r := range op[1].([]interface{}) {
				a := r.([]interface{})
				ls = append(ls, &fillLayer{t: num(a[0]), pre: num(a[1]), app: num(a[2]), f: f})
			}
			gopacket.SerializeLayers(buf, gopacket.SerializeOptions{}, ls...)
		case "clear":
			buf.Clear()
		default:
			vh.Fatal("unknown history op", op[0])
		}
	}
	return buf
}

func countBytes(w []byte, f byte) (nf, other int) {
	for _, x := range w {
		if x == f && f != 0 {
			nf++
		} else if x != 0 {
			other++
		}
	}
	return
}

func (h *histT) name() string {
	s := ""
	for _, op := range h.Ops {
		s += fmt.Sprint(op...) + ";"
	}
	return fmt.Sprintf("%sf=%d", s, h.F)
}

func probe(tr *vh.Trace, hi int, h *histT) {
	buf := h.build()
	ev := vh.M{"op": "hist", "h": hi, "f": h.F, "before": h.Before, "after": h.After,
		"staleBefore": h.StaleBefore, "staleAfter": h.StaleAfter, "nops": len(h.Ops)}
	gb, ob, ga, oa := 0, 0, 0, 0
	lenOK := true
	if len(buf.Bytes()) != 0 {
		lenOK = false
	}
	if h.Before > 0 {
		w, _ := buf.PrependBytes(h.Before)
		gb, ob = countBytes(w, byte(h.F))
		lenOK = lenOK && len(w) == h.Before
	}
	if h.After > 0 {
		w, _ := buf.AppendBytes(h.After)
		ga, oa = countBytes(w, byte(h.F))
		lenOK = lenOK && len(w) == h.After
	}
	ev["gotBefore"], ev["gotAfter"], ev["other"], ev["empty"] = gb, ga, ob+oa, lenOK
	tr.Emit(ev)
}

type serOut struct {
	res  string
	out  []byte
	site string
	msg  string
}

// serOne: the payload is placed first (as SerializeLayers does with a Payload layer), then the layer.
func serOne(buf gopacket.SerializeBuffer, l gopacket.SerializableLayer, payload []byte, o gopacket.SerializeOptions) serOut {
	var err error
	msg, site, p := vh.Guard(func() {
		buf.Clear()
		w, e := buf.PrependBytes(len(payload))
		if e != nil {
			err = e
			return
		}
		copy(w, payload)
		err = l.SerializeTo(buf, o)
	})
	if p {
		if len(msg) > 100 {
			msg = msg[:100]
		}
		return serOut{res: "panic", site: vh.SiteSig(corpus.Repo(), site), msg: msg}
	}
	if err != nil {
		m := err.Error()
		if len(m) > 100 {
			m = m[:100]
		}
		return serOut{res: "err", msg: m}
	}
	return serOut{res: "ok", out: append([]byte(nil), buf.Bytes()...)}
}

func optsOf(i int) gopacket.SerializeOptions {
	return gopacket.SerializeOptions{FixLengths: i&1 != 0, ComputeChecksums: i&2 != 0}
}

// freshLayer decodes the input again and returns layer j with its payload and field digest.
func freshLayer(in input, j int) (gopacket.SerializableLayer, []byte, string, string) {
	var p gopacket.Packet
	_, _, pan := vh.Guard(func() {
		p = gopacket.NewPacket(in.data, in.first, gopacket.Default)
		p.Layers()
	})
	if pan || p == nil {
		return nil, nil, "", ""
	}
	ls := p.Layers()
	if j >= len(ls) {
		return nil, nil, "", ""
	}
	sl, ok := ls[j].(gopacket.SerializableLayer)
	if !ok || isNil(ls[j]) {
		return nil, nil, "", ""
	}
	linkChecksumNet(ls[:j+1])
	var dg string
	var pl []byte
	_, _, pan = vh.Guard(func() {
		dg = vh.Digest(ls[j])
		pl = ls[j].LayerPayload()
	})
	if pan {
		return nil, nil, "", ""
	}
	return sl, pl, dg, ls[j].LayerType().String()
}

// diffDiag: where two outputs differ (diagnostic only: the verdict is the digest inequality judged in TLA+)
func diffDiag(ref, got []byte, f byte) vh.M {
	d := vh.M{"refLen": len(ref), "gotLen": len(got)}
	n := len(ref)
	if len(got) < n {
		n = len(got)
	}
	lo, hi, cnt := -1, -1, 0
	stale := true
	for i := 0; i < n; i++ {
		if ref[i] != got[i] {
			if lo < 0 {
				lo = i
			}
			hi = i + 1
			cnt++
			if got[i] != f || f == 0 {
				stale = false
			}
		}
	}
	d["lo"], d["hi"], d["cnt"] = lo, hi, cnt
	// offsets counted from the end help when the header is behind a variable part
	d["loFromEnd"] = len(got) - lo
	if len(ref) != len(got) {
		d["kind"] = "length"
	} else if cnt > 0 && stale {
		d["kind"] = "stale-fill-byte"
	} else {
		d["kind"] = "bytes"
	}
	return d
}

func runC07(tr *vh.Trace, n int, seed uint64, histFile string, khist int, maxlen int, probeH bool) map[string]int {
	var hs []*histT
	loadJSONLines(histFile, func() interface{} { return &histT{} }, func(v interface{}) { hs = append(hs, v.(*histT)) })
	if len(hs) == 0 {
		vh.Fatal("no histories (run TLC on SerHistory.tla first)")
	}
	freshIdx := 0
	var dirty []int
	for i, h := range hs {
		if len(h.Ops) == 1 && h.Ops[0][0].(string) == "fresh" {
			freshIdx = i
		} else {
			dirty = append(dirty, i)
		}
		tick.Add(1)
		if probeH {
			probe(tr, i, h)
		}
	}
	fx := corpus.Load()
	types := corpus.RegisteredTypes()
	ix := buildIndex(fx, types)
	r := vh.NewRand(seed)
	st := map[string]int{"cases": 0, "calls": 0, "histories": len(hs), "types_indexed": len(ix.names)}
	rot := int(seed*7919) % len(dirty)
	stride := 7
	for gcd(stride, len(dirty)) != 1 {
		stride++
	}
	sc := 0
	for i := 1; i <= n; i++ {
		in, want := pickInput(r, fx, ix, types, r.Intn(10) < 6, maxlen)
		all := r.Intn(4) == 0 || replayIn != nil
		curCase.Store(fmt.Sprintf("%s first=%s len=%d", in.name, in.first, len(in.data)))
		tick.Add(1)
		p := safePacket(in.data, in.first)
		if p == nil {
			continue
		}
		nl := len(p.Layers())
		taken := 0
		for j := 0; j < nl && taken < 6; j++ {
			l0 := p.Layers()[j]
			if _, ok := l0.(gopacket.SerializableLayer); !ok || isNil(l0) {
				continue
			}
			switch l0.(type) {
			case *gopacket.Payload, *gopacket.Fragment, *gopacket.DecodeFailure:
				continue
			}
			if !all && l0.LayerType().String() != want && want != "" {
				continue
			}
			taken++
			sc++
			tick.Add(1)
			_, pl0, dg0, tn := freshLayer(in, j)
			if tn == "" {
				continue
			}
			st["cases"]++
			tr.Emit(vh.M{"op": "case", "sc": sc, "in": in.name, "first": in.first.String(), "j": j, "type": tn,
				"idg": dg0, "plen": len(pl0), "dlen": len(in.data), "hex": hexOf(in.data)})
			for o := 0; o < 4; o++ {
				var ref []byte
				haveRef := false
				run := func(hi int) {
					h := hs[hi]
					buf := h.build()
					for rep := 1; rep <= 2; rep++ {
						l, pl, dg, _ := freshLayer(in, j)
						if l == nil {
							return
						}
						curCase.Store(fmt.Sprintf("%s first=%s layer=%d type=%s opts=%d hist=%s", in.name, in.first, j, tn, o, h.name()))
						tick.Add(1)
						so := serOne(buf, l, pl, optsOf(o))
						st["calls"]++
						ev := vh.M{"op": "ser", "sc": sc, "o": o, "h": hi, "rep": rep, "res": so.res, "idg": dg,
							"d": "", "n": len(so.out)}
						switch so.res {
						case "ok":
							ev["d"] = bdigest(so.out)
							if !haveRef {
								ref, haveRef = so.out, true
							} else if !bytes.Equal(ref, so.out) {
								ev["diag"] = diffDiag(ref, so.out, byte(h.F))
								ev["hist"] = h.name()
							}
						case "err":
							ev["msg"] = so.msg
						case "panic":
							ev["site"], ev["msg"] = so.site, so.msg
							ev["hist"] = h.name()
						}
						tr.Emit(ev)
					}
				}
				run(freshIdx)
				for k := 0; k < khist; k++ {
					rot = (rot + stride) % len(dirty)
					run(dirty[rot])
				}
			}
		}
	}
	return st
}

func gcd(a, b int) int {
	for b != 0 {
		a, b = b, a%b
	}
	return a
}
