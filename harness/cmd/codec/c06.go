package main

// C06: serialize then decode returns the same layers and payload.
//
// One case = ser -> dec -> ser2, all written with FixLengths and ComputeChecksums on:
//   ser   the layer(s) are written over the payload (gopacket.SerializeLayers); every layer is wrapped in a
//         recorder that notes which bytes that layer contributed (header / trailer) - for the core stack these
//         header bytes go into the event so that Wire.tla can judge the layout - and the key (fields.go) of
//         every layer AFTER the call
//   dec   the bytes are decoded again (single layer: as that layer type; stack: from Ethernet)
//   ser2  the decoded layers are written once more
// Sources: fix = layers obtained by decoding fixtures / mutations (no error layer), gen = TLC shapes
// instantiated by gen.go (+ a few > 64 KiB cases), stack = TLC stacks.

import (
	"bytes"
	"encoding/json"
	"fmt"
	"reflect"
	"strings"

	"github.com/gopacket/gopacket"
	"github.com/gopacket/gopacket/layers"
	"verif/harness/corpus"
	"verif/harness/vh"
)

var bothOpts = gopacket.SerializeOptions{FixLengths: true, ComputeChecksums: true}

const maxHdr = 300

var coreTypes = map[string]bool{"Ethernet": true, "Dot1Q": true, "IPv4": true, "IPv6": true, "IPv6HopByHop": true,
	"IPv6Destination": true, "IPv6Routing": true, "IPv6Fragment": true, "TCP": true, "UDP": true, "ICMPv4": true,
	"ICMPv6": true, "ICMPv6Echo": true, "ICMPv6NeighborSolicitation": true, "ICMPv6NeighborAdvertisement": true,
	"ICMPv6RouterSolicitation": true, "ICMPv6RouterAdvertisement": true, "ICMPv6Redirect": true, "GRE": true}

// countBuf is a SerializeBuffer that counts the bytes handed out in front of and behind the contents.
type countBuf struct {
	gopacket.SerializeBuffer
	pre, app int
}

func (c *countBuf) PrependBytes(n int) ([]byte, error) {
	b, err := c.SerializeBuffer.PrependBytes(n)
	if err == nil {
		c.pre += n
	}
	return b, err
}
func (c *countBuf) AppendBytes(n int) ([]byte, error) {
	b, err := c.SerializeBuffer.AppendBytes(n)
	if err == nil {
		c.app += n
	}
	return b, err
}

// rec wraps a layer and records what it added to the buffer: header = bytes it prepended, trailer = bytes
// it appended (the buffer passed to SerializeLayers must be a *countBuf).
type rec struct {
	inner          gopacket.SerializableLayer
	hdr            []byte
	hlen           int
	after, trailer int
	done           bool
}

func (r *rec) LayerType() gopacket.LayerType { return r.inner.LayerType() }
func (r *rec) SerializeTo(b gopacket.SerializeBuffer, o gopacket.SerializeOptions) error {
	cb := b.(*countBuf)
	pre0, app0, len0 := cb.pre, cb.app, len(b.Bytes())
	if err := r.inner.SerializeTo(b, o); err != nil {
		return err
	}
	nb := b.Bytes()
	r.hlen, r.after, r.trailer, r.done = cb.pre-pre0, len0, cb.app-app0, true
	if r.hlen <= maxHdr && r.hlen <= len(nb) {
		r.hdr = append([]byte(nil), nb[:r.hlen]...)
	}
	return nil
}

func tlvList(opts []*layers.IPv6HopByHopOption) [][]int {
	out := [][]int{}
	for _, o := range opts {
		if o == nil {
			continue
		}
		out = append(out, []int{int(o.OptionType), len(o.OptionData), int(o.OptionAlignment[0]), int(o.OptionAlignment[1])})
	}
	return out
}

// listOf: the list-valued field of a core layer in FIELD ORDER, as (type, length[, alignment]) entries, and
// the scalar facts Wire.tla needs (GRE optional fields, UDP over IPv6).
func listOf(l interface{}) ([][]int, vh.M) {
	out := [][]int{}
	f := vh.M{"z": 0}
	switch x := l.(type) {
	case *layers.IPv4:
		for _, o := range x.Options {
			n := int(o.OptionLength)
			if o.OptionType <= 1 {
				n = 1
			}
			out = append(out, []int{int(o.OptionType), n})
		}
	case *layers.TCP:
		for _, o := range x.Options {
			n := 2 + len(o.OptionData)
			if o.OptionType <= 1 {
				n = 1
			}
			out = append(out, []int{int(o.OptionType), n})
		}
		pz := true
		for _, b := range x.Padding {
			if b != 0 {
				pz = false
			}
		}
		f = vh.M{"padzero": pz}
	case *layers.IPv6:
		if x.HopByHop != nil {
			out = tlvList(x.HopByHop.Options)
		}
	case *layers.IPv6HopByHop:
		out = tlvList(x.Options)
	case *layers.IPv6Destination:
		for _, o := range x.Options {
			if o != nil {
				out = append(out, []int{int(o.OptionType), len(o.OptionData), int(o.OptionAlignment[0]), int(o.OptionAlignment[1])})
			}
		}
	case *layers.ICMPv6RouterSolicitation:
		out = ndpList(x.Options)
	case *layers.ICMPv6RouterAdvertisement:
		out = ndpList(x.Options)
	case *layers.ICMPv6NeighborSolicitation:
		out = ndpList(x.Options)
	case *layers.ICMPv6NeighborAdvertisement:
		out = ndpList(x.Options)
	case *layers.ICMPv6Redirect:
		out = ndpList(x.Options)
	case *layers.GRE:
		for s := x.GRERouting; s != nil; s = s.Next {
			out = append(out, []int{int(s.AddressFamily), int(s.SRELength)})
			if len(out) > 64 {
				break
			}
		}
		f = vh.M{"c": x.ChecksumPresent, "r": x.RoutingPresent, "k": x.KeyPresent, "s": x.SeqPresent, "a": x.AckPresent,
			"keyb": u32b(x.Key), "seqb": u32b(x.Seq), "ackb": u32b(x.Ack), "jumbo": false}
	case *layers.UDP:
		f = vh.M{"jumbo": udpOverV6[x]}
	}
	return out, f
}

var udpOverV6 = map[*layers.UDP]bool{}

func ndpList(o layers.ICMPv6Options) [][]int {
	out := [][]int{}
	for _, x := range o {
		out = append(out, []int{int(x.Type), len(x.Data)})
	}
	return out
}

func typeName(l interface{ LayerType() gopacket.LayerType }) string { return l.LayerType().String() }

// layEvent: the per-layer part of a ser event
func layEvent(r *rec) vh.M {
	tn := typeName(r.inner)
	list, f := listOf(r.inner)
	m := vh.M{"t": tn, "key": fieldKey(r.inner), "hdr": []int{}, "after": r.after, "trailer": r.trailer, "hlen": r.hlen,
		"list": list, "f": f}
	if coreTypes[tn] && r.done && r.hdr != nil && r.hlen > 0 {
		m["hdr"] = vh.Ints(r.hdr)
	}
	return m
}

func decLayEvent(l gopacket.Layer) vh.M {
	list, _ := listOf(l)
	return vh.M{"t": l.LayerType().String(), "key": fieldKey(l), "list": list}
}

type feedback struct{ trunc bool }

func (f *feedback) SetTruncated() { f.trunc = true }

var sharedBuf = &countBuf{SerializeBuffer: gopacket.NewSerializeBuffer()}

type caseT struct {
	reuse, freshBuf bool // force the shared / a new buffer
	src, name       string
	hex             string // the input a decoded layer came from (replay)
	ls              []gopacket.SerializableLayer
	payload         []byte
	single          bool                  // decode as the layer's own type (else: a stack from Ethernet)
	net             gopacket.NetworkLayer // pseudo header for single layers
}

func short(s string) string {
	if len(s) > 160 {
		return s[:160]
	}
	return s
}

func setNet(l interface{}, n gopacket.NetworkLayer) {
	if s, ok := l.(interface {
		SetNetworkLayerForChecksum(gopacket.NetworkLayer) error
	}); ok && n != nil {
		s.SetNetworkLayerForChecksum(n)
	}
	if u, ok := l.(*layers.UDP); ok {
		_, v6 := n.(*layers.IPv6)
		udpOverV6[u] = v6
	}
}

// roundTrip runs one case and emits its events.
func roundTrip(tr *vh.Trace, sc int, c *caseT, st map[string]int) {
	st["cases_"+c.src]++
	recs := make([]*rec, len(c.ls))
	all := make([]gopacket.SerializableLayer, 0, len(c.ls)+1)
	for i, l := range c.ls {
		recs[i] = &rec{inner: l}
		all = append(all, recs[i])
	}
	all = append(all, gopacket.Payload(c.payload))
	// two of three cases write into ONE buffer that every earlier case of this run used (for its first and its
	// second serialization): SerializeLayers clears it, so the result must not depend on what it held or recorded
	buf := sharedBuf
	if c.freshBuf || (sc%3 == 0 && !c.reuse) {
		buf = &countBuf{SerializeBuffer: gopacket.NewSerializeBuffer()}
	}
	var err error
	msg, site, pan := vh.Guard(func() { err = gopacket.SerializeLayers(buf, bothOpts, all...) })
	ev := vh.M{"op": "ser", "sc": sc, "src": c.src, "name": c.name, "hex": c.hex, "err": "", "n": 0, "d": "", "plen": len(c.payload),
		"pd": bdigest(c.payload), "lay": []vh.M{}}
	if pan {
		ev["err"] = "panic: " + short(msg) + " @ " + vh.SiteSig(corpus.Repo(), site)
		st["ser_panics"]++
	} else if err != nil {
		ev["err"] = short(err.Error())
	}
	if ev["err"] != "" {
		ev["lay"] = []vh.M{{"t": typeName(c.ls[0]), "key": "", "hdr": []int{}, "after": 0, "trailer": 0, "hlen": 0, "list": [][]int{}, "f": vh.M{"z": 0}}}
		st["ser_errors_"+c.src]++
		tr.Emit(ev)
		return
	}
	out := append([]byte(nil), buf.Bytes()...)
	lay := make([]vh.M, len(recs))
	for i, r := range recs {
		lay[i] = layEvent(r)
	}
	ev["n"], ev["d"], ev["lay"] = len(out), bdigest(out), lay
	tr.Emit(ev)

	// decode
	var dls []gopacket.Layer
	var dpl []byte
	derr := ""
	trunc := false
	var dp gopacket.Packet
	msg, site, pan = vh.Guard(func() {
		if c.single {
			t := c.ls[0].LayerType()
			if _, isDL := c.ls[0].(gopacket.DecodingLayer); isDL {
				// the public DecodingLayer API on a new object of the same type
				nl := reflect.New(reflect.TypeOf(c.ls[0]).Elem()).Interface().(gopacket.DecodingLayer)
				fb := &feedback{}
				if e := nl.DecodeFromBytes(out, fb); e != nil {
					derr = short(e.Error())
				}
				trunc = fb.trunc
				if l, ok := nl.(gopacket.Layer); ok {
					dls = []gopacket.Layer{l}
					dpl = nl.LayerPayload()
				} else {
					derr = "decoding layer is not a layer"
				}
				return
			}
			// decoder function only: decode lazily so that nothing behind the first layer is touched
			dp = gopacket.NewPacket(out, t, gopacket.DecodeOptions{Lazy: true, NoCopy: true})
			l := dp.Layer(t)
			trunc = dp.Metadata().Truncated
			if l == nil {
				derr = "no layer of type " + t.String()
				if el := dp.ErrorLayer(); el != nil {
					derr = short(el.Error().Error())
				}
				return
			}
			dls = []gopacket.Layer{l}
			dpl = l.LayerPayload()
		} else {
			dp = gopacket.NewPacket(out, layers.LayerTypeEthernet, gopacket.DecodeOptions{NoCopy: true})
			ls := dp.Layers()
			trunc = dp.Metadata().Truncated
			var prev gopacket.Layer
			for i, l := range ls {
				switch x := l.(type) {
				case *gopacket.DecodeFailure:
					derr = short(x.Error().Error())
				case *gopacket.Payload:
					if i == len(ls)-1 {
						dpl = x.Payload()
					} else {
						dls = append(dls, l)
					}
				case *gopacket.Fragment:
					if i == len(ls)-1 {
						dpl = x.Payload()
					} else {
						dls = append(dls, l)
					}
				case *layers.IPv6HopByHop:
					if p6, ok := prev.(*layers.IPv6); ok && p6.HopByHop == x {
						break // reported through IPv6.HopByHop
					}
					dls = append(dls, l)
				default:
					dls = append(dls, l)
				}
				prev = l
			}
			if len(ls) > 0 && dpl == nil {
				switch ls[len(ls)-1].(type) {
				case *gopacket.Payload, *gopacket.Fragment:
				default:
					dpl = ls[len(ls)-1].LayerPayload()
				}
			}
		}
	})
	if pan {
		derr = "panic: " + short(msg) + " @ " + vh.SiteSig(corpus.Repo(), site)
	}
	pfx := dpl
	restZero := true
	if len(pfx) > len(c.payload) {
		pfx = dpl[:len(c.payload)]
		for _, x := range dpl[len(c.payload):] {
			if x != 0 {
				restZero = false
			}
		}
	}
	dv := vh.M{"op": "dec", "sc": sc, "d": bdigest(out), "err": derr, "trunc": trunc, "plen": len(dpl), "pd": bdigest(dpl),
		"ppd": bdigest(pfx), "restZero": restZero, "lay": []vh.M{}}
	dl := make([]vh.M, len(dls))
	for i, l := range dls {
		dl[i] = decLayEvent(l)
	}
	dv["lay"] = dl
	// diagnostic: first differing field
	for i := range dls {
		if i < len(c.ls) && dl[i]["key"] != lay[i]["key"] {
			dv["diff"] = typeName(c.ls[i]) + "." + fieldDiff(c.ls[i], dls[i])
			break
		}
	}
	tr.Emit(dv)
	if derr != "" {
		return
	}

	// serialize the decoded layers once more
	var buf2 gopacket.SerializeBuffer = buf
	var err2 error
	msg, site, pan = vh.Guard(func() {
		if c.single {
			sl, ok := dls[0].(gopacket.SerializableLayer)
			if !ok {
				err2 = fmt.Errorf("decoded layer is not serializable")
				return
			}
			setNet(dls[0], c.net)
			err2 = gopacket.SerializeLayers(buf2, bothOpts, sl, gopacket.Payload(dls[0].LayerPayload()))
		} else {
			linkChecksumNet(dp.Layers())
			err2 = gopacket.SerializePacket(buf2, bothOpts, dp)
		}
	})
	sv := vh.M{"op": "ser2", "sc": sc, "err": "", "d": "", "n": 0}
	if pan {
		sv["err"] = "panic: " + short(msg) + " @ " + vh.SiteSig(corpus.Repo(), site)
	} else if err2 != nil {
		sv["err"] = short(err2.Error())
	} else {
		o2 := buf2.Bytes()
		sv["d"], sv["n"] = bdigest(o2), len(o2)
		if !bytes.Equal(o2, out) {
			// diagnostic: which layer's region holds the first difference
			lo := 0
			for lo < len(o2) && lo < len(out) && o2[lo] == out[lo] {
				lo++
			}
			off := 0
			where := "payload"
			for _, r := range recs {
				if lo < off+r.hlen {
					where = typeName(r.inner)
					break
				}
				off += r.hlen
			}
			sv["diff"] = fmt.Sprintf("%s@%d", where, lo-off)
			if len(o2) != len(out) {
				sv["diff"] = where + "@length"
			}
		}
	}
	tr.Emit(sv)
}

func nearestNet(ls []gopacket.Layer, j int) gopacket.NetworkLayer {
	var net gopacket.NetworkLayer = defaultNet
	for _, l := range ls[:j] {
		switch n := l.(type) {
		case *layers.IPv4:
			net = n
		case *layers.IPv6:
			net = n
		}
	}
	return net
}

func runC06(tr *vh.Trace, n int, seed uint64, shapesFile, stacksFile string, maxlen int, only string, part string) map[string]int {
	st := map[string]int{}
	pi, pk := 0, 1
	fmt.Sscanf(part, "%d/%d", &pi, &pk)
	if pk < 1 {
		pk = 1
	}
	idx := 0
	mine := func() bool { idx++; return (idx-1)%pk == pi }
	want := map[string]bool{"fix": true, "gen": true, "stack": true}
	if only != "" {
		want = map[string]bool{}
		for _, w := range strings.Split(only, ",") {
			want[w] = true
		}
	}
	r := vh.NewRand(seed)
	sc := 0
	v6net := &layers.IPv6{Version: 6, SrcIP: ip6(r), DstIP: ip6(r), NextHeader: layers.IPProtocolUDP}

	// (b) TLC shapes
	if want["gen"] {
		readLines(shapesFile, func(line []byte) {
			var b beh
			if err := json.Unmarshal(line, &b); err != nil {
				vh.Fatal("bad shape:", err)
			}
			if b.Kind != "shape" || !mine() {
				return
			}
			sc++
			tick.Add(1)
			curCase.Store("shape " + string(line))
			l := genShape(r, &b)
			setNet(l, defaultNet)
			roundTrip(tr, sc, &caseT{src: "gen", name: string(line), ls: []gopacket.SerializableLayer{l},
				payload: genPayload(r, b.Pl), single: true, net: defaultNet}, st)
		})
		// a few cases beyond 64 KiB (IPv6 jumbograms, UDP with length 0) and at the 16-bit boundaries
		big := func(name string, l gopacket.SerializableLayer, net gopacket.NetworkLayer, n int) {
			if noBig || !mine() {
				return
			}
			sc++
			tick.Add(1)
			curCase.Store("big " + name)
			setNet(l, net)
			roundTrip(tr, sc, &caseT{src: "gen", name: fmt.Sprintf("big:%s:%d", name, n), ls: []gopacket.SerializableLayer{l},
				payload: genPayload(r, n), single: true, net: net}, st)
		}
		// around every 16-bit length limit: IPv6 payload length 65535 with and without (8 bytes of) hop-by-hop,
		// UDP length 65535 = 8 + 65527 over IPv6 (jumbo: length 0) and over IPv4
		for _, n := range []int{65534, 65535, 65536, 70001} {
			big("IPv6", genIPv6(r, 253, false, nil), nil, n)
		}
		for _, n := range []int{65526, 65527, 65528, 65535, 65536, 70001} {
			big("IPv6+hbh", genIPv6(r, 253, true, [][]int{{5, 2, 2, 0}}), nil, n)
		}
		for _, n := range []int{65526, 65527, 65528, 65529, 65531, 65535, 65536, 70001} {
			big("UDP/v6", genUDP(r), v6net, n)
		}
		for _, n := range []int{65507, 65527, 65528} {
			big("UDP/v4", genUDP(r), defaultNet, n)
		}
		big("IPv4", genIPv4(r, nil, 253), nil, 65515)
		big("IPv4+opts", genIPv4(r, [][]int{{148, 4}}, 253), nil, 65511)
		big("TCP", genTCP(r, [][]int{{2, 4}}), defaultNet, 65495)
	}

	// (c) TLC stacks, written with gopacket.SerializeLayers
	if want["stack"] {
		readLines(stacksFile, func(line []byte) {
			var b beh
			if err := json.Unmarshal(line, &b); err != nil {
				vh.Fatal("bad stack:", err)
			}
			if b.Kind != "stack" || !mine() {
				return
			}
			sc++
			tick.Add(1)
			curCase.Store("stack " + string(line))
			ls := genStack(r, &b)
			var net gopacket.NetworkLayer
			for _, l := range ls {
				switch x := l.(type) {
				case *layers.IPv4:
					net = x
				case *layers.IPv6:
					net = x
				default:
					setNet(l, net)
				}
			}
			var names []string
			for _, l := range b.Layers {
				names = append(names, l.T)
			}
			roundTrip(tr, sc, &caseT{src: "stack", name: string(line), ls: ls, payload: genPayload(r, b.Pl)}, st)
			_ = names
		})
		// reuse sequences in the shared buffer: a stack with a STAND-ALONE hop-by-hop layer is written (it is
		// recorded in Layers()), then stacks whose IPv6 layer carries its hop-by-hop header itself are round-tripped:
		// a small one, a built jumbogram (its decoded form is written into the same buffer by Ser2 - again with a
		// stand-alone hop-by-hop layer), another built jumbogram
		if !noBig && pi == 0 {
			e6 := func() *layers.Ethernet {
				return &layers.Ethernet{SrcMAC: mac(r), DstMAC: mac(r), EthernetType: layers.EthernetTypeIPv6}
			}
			for round := 0; round < 2; round++ {
				x6 := genIPv6(r, 0, false, nil)
				xu := genUDP(r)
				setNet(xu, x6)
				vh.Guard(func() {
					gopacket.SerializeLayers(sharedBuf, bothOpts, e6(), x6, genHopByHop(r, [][]int{{5, 2, 2, 0}}, 17), xu, gopacket.Payload(genPayload(r, 100)))
				})
				for k, n := range []int{40, 70001, 65536} {
					sc++
					i6 := genIPv6(r, 17, k == 0, [][]int{{5, 2, 2, 0}})
					u := genUDP(r)
					setNet(u, i6)
					roundTrip(tr, sc, &caseT{src: "stack", reuse: true, name: fmt.Sprintf("seq%d:after-standalone-hbh:Ethernet/IPv6/UDP:%d", round, n),
						ls: []gopacket.SerializableLayer{e6(), i6, u}, payload: genPayload(r, n)}, st)
				}
			}
		}
		// one jumbogram stack
		if !noBig && mine() {
			sc++
			e := &layers.Ethernet{SrcMAC: mac(r), DstMAC: mac(r), EthernetType: layers.EthernetTypeIPv6}
			i6 := genIPv6(r, 17, false, nil)
			u := genUDP(r)
			setNet(u, i6)
			roundTrip(tr, sc, &caseT{src: "stack", name: "big:Ethernet/IPv6/UDP:70001", ls: []gopacket.SerializableLayer{e, i6, u},
				payload: genPayload(r, 70001)}, st)
		}
	}

	// (a) layers obtained by decoding fixtures and mutations
	if want["fix"] && n > 0 {
		fx := corpus.Load()
		types := corpus.RegisteredTypes()
		ix := buildIndex(fx, types)
		st["types_indexed"] = len(ix.names)
		for i := 0; i < n; i++ {
			in, wantT := pickInput(r, fx, ix, types, r.Intn(10) < 4, maxlen)
			tick.Add(1)
			curCase.Store(fmt.Sprintf("%s first=%s", in.name, in.first))
			p := safePacket(in.data, in.first)
			if p == nil {
				continue
			}
			ls0 := p.Layers()
			allL := r.Intn(4) == 0 || replayIn != nil
			taken := 0
			for j, l0 := range ls0 {
				if !serializable(l0) || taken >= 4 {
					continue
				}
				if !allL && l0.LayerType().String() != wantT {
					continue
				}
				bad := false
				for k := 0; k <= j+1 && k < len(ls0); k++ {
					if _, isFail := ls0[k].(*gopacket.DecodeFailure); isFail {
						bad = true
					}
				}
				if bad {
					continue
				}
				if !standalone(l0) {
					st["skipped_no_standalone_decoder"]++
					continue
				}
				taken++
				// a fresh decode for this case: the layer object has not been touched by another case
				p2 := safePacket(in.data, in.first)
				if p2 == nil || len(p2.Layers()) <= j {
					continue
				}
				l := p2.Layers()[j]
				sl, ok := l.(gopacket.SerializableLayer)
				if !ok || l.LayerType() != l0.LayerType() {
					continue
				}
				net := nearestNet(p2.Layers(), j)
				setNet(l, net)
				sc++
				roundTrip(tr, sc, &caseT{src: "fix", name: fmt.Sprintf("%s first=%s layer=%d", in.name, in.first, j), hex: hexOf(in.data),
					ls: []gopacket.SerializableLayer{sl}, payload: append([]byte(nil), l.LayerPayload()...), single: true, net: net}, st)
			}
		}
	}
	st["cases"] = sc
	return st
}

var standaloneCache = map[gopacket.LayerType]bool{}

// standalone: the layer type can be READ on its own - it is a DecodingLayer or its layer type has a decoder.
// (SCTP chunk types, for instance, are only decoded behind an SCTP header.)
func standalone(l gopacket.Layer) bool {
	if _, ok := l.(gopacket.DecodingLayer); ok {
		return true
	}
	t := l.LayerType()
	if v, ok := standaloneCache[t]; ok {
		return v
	}
	ok := true
	func() {
		defer func() { recover() }()
		p := gopacket.NewPacket([]byte{0, 0, 0, 0, 0, 0, 0, 0}, t, gopacket.Default)
		if el := p.ErrorLayer(); el != nil && strings.Contains(el.Error().Error(), "has no associated decoder") {
			ok = false
		}
	}()
	standaloneCache[t] = ok
	return ok
}
