// codec: conformance driver for the serializers (C06, C07).
//
//	-mode c07 : every serializable layer obtained by decoding fixtures / mutations is written, from a fresh
//	            decode per call, into buffers with the histories exported by TLC from SerHistory.tla
//	            (events case / ser / hist, judged by SerPure.tla).
//	-mode c06 : round trips Ser -> Dec -> Ser2 of decoded fixture layers, of generated core-stack layers whose
//	            list-valued shapes TLC enumerated (WireGen.tla) and of TLC-enumerated stacks written with
//	            gopacket.SerializeLayers (events judged by Codec.tla + Wire.tla).
//
// Go only drives the library and records; digests are computed here for equality only.
package main

import (
	"bufio"
	"encoding/hex"
	"encoding/json"
	"flag"
	"fmt"
	"hash/fnv"
	"os"
	"reflect"
	"sort"
	"sync/atomic"
	"time"

	"github.com/gopacket/gopacket"
	"github.com/gopacket/gopacket/layers"
	"verif/harness/corpus"
	"verif/harness/vh"
)

var curCase atomic.Value // description of the case in progress (hang / crash attribution)
var tick atomic.Int64

func isNil(l interface{}) bool {
	if l == nil {
		return true
	}
	v := reflect.ValueOf(l)
	return v.Kind() == reflect.Ptr && v.IsNil()
}

func bdigest(b []byte) string {
	h := fnv.New64a()
	h.Write(b)
	return fmt.Sprintf("%016x", h.Sum64())
}

func readLines(path string, each func([]byte)) {
	if path == "" {
		return
	}
	f, err := os.Open(path)
	if err != nil {
		vh.Fatal(err)
	}
	defer f.Close()
	rd := bufio.NewScanner(f)
	rd.Buffer(make([]byte, 1<<20), 1<<26)
	for rd.Scan() {
		if len(rd.Bytes()) > 0 {
			each(append([]byte(nil), rd.Bytes()...))
		}
	}
}

// watchdog: one case must finish within 60 s; a hang is an event and exit code 3, never a stuck check.
func watchdog(tr *vh.Trace, stop chan struct{}) {
	last := int64(-1)
	stuck := 0
	for {
		select {
		case <-stop:
			return
		case <-time.After(2 * time.Second):
		}
		cur := tick.Load()
		if cur == last {
			stuck++
		} else {
			stuck = 0
			last = cur
		}
		if stuck >= 30 {
			desc, _ := curCase.Load().(string)
			tr.Emit(vh.M{"op": "hang", "sc": int(cur), "in": desc})
			tr.Close()
			fmt.Printf("{\"cases\":%d,\"events\":%d,\"hang\":true}\n", cur, tr.N)
			os.Exit(3)
		}
	}
}

type input struct {
	name  string
	data  []byte
	first gopacket.LayerType
}

func safePacket(data []byte, first gopacket.LayerType) (p gopacket.Packet) {
	defer func() {
		if recover() != nil {
			p = nil
		}
	}()
	p = gopacket.NewPacket(data, first, gopacket.Default)
	p.Layers()
	return p
}

type entry struct {
	fi    int
	first gopacket.LayerType
}

// index: for every serializable layer type, the (fixture, first layer type) pairs whose decoding yields a
// layer of that type.  Fixtures are decoded from their own first layer and - many test literals are the bytes
// of one inner layer - as every registered layer type (only the directly decoded layer counts there).
type index struct {
	names  []string
	byType map[string][]entry
}

func serializable(l gopacket.Layer) bool {
	if isNil(l) {
		return false
	}
	switch l.(type) {
	case *gopacket.Payload, *gopacket.Fragment, *gopacket.DecodeFailure:
		return false
	}
	_, ok := l.(gopacket.SerializableLayer)
	return ok
}

func buildIndex(fx []corpus.Fixture, types []gopacket.LayerType) *index {
	ix := &index{byType: map[string][]entry{}}
	add := func(tn string, e entry) {
		if len(ix.byType[tn]) == 0 {
			ix.names = append(ix.names, tn)
		}
		ix.byType[tn] = append(ix.byType[tn], e)
	}
	for fi, f := range fx {
		tick.Add(1)
		if len(f.Data) > 9000 {
			continue
		}
		seen := map[string]bool{}
		if p := safePacket(f.Data, f.First); p != nil {
			for _, l := range p.Layers() {
				if serializable(l) {
					tn := l.LayerType().String()
					if !seen[tn] {
						seen[tn] = true
						add(tn, entry{fi, f.First})
					}
				}
			}
		}
		for _, t := range types {
			if t == f.First {
				continue
			}
			if p := safePacket(f.Data, t); p != nil {
				if ls := p.Layers(); len(ls) > 0 && serializable(ls[0]) && p.ErrorLayer() == nil {
					tn := ls[0].LayerType().String()
					if !seen[tn] {
						seen[tn] = true
						add(tn, entry{fi, t})
					}
				}
			}
		}
	}
	sort.Strings(ix.names)
	return ix
}

// pickInput: choose a serializable layer type uniformly, then an input that decodes to it; optionally
// mutate the input (structural or layer-aware mutation) or decode it as an arbitrary registered type.
func pickInput(r *vh.Rand, fx []corpus.Fixture, ix *index, types []gopacket.LayerType, mutate bool, maxlen int) (input, string) {
	if replayIn != nil {
		return *replayIn, ""
	}
	tn := ix.names[r.Intn(len(ix.names))]
	es := ix.byType[tn]
	e := es[r.Intn(len(es))]
	f := fx[e.fi]
	data, name, first := f.Data, f.Name, e.first
	if mutate {
		switch k := r.Intn(10); {
		case k < 4:
			if d2, m := corpus.LayerAware(r, corpus.Fixture{Name: f.Name, Data: f.Data, First: first}); d2 != nil {
				data, name = d2, name+"~"+m
			}
		case k < 9:
			var m string
			data, m = corpus.Mutate(r, data)
			name += "~" + m
			if r.Intn(4) == 0 {
				data, m = corpus.Mutate(r, data)
				name += "~" + m
			}
		default:
			first = types[r.Intn(len(types))]
		}
	}
	if len(data) > maxlen {
		data = data[:maxlen]
	}
	return input{name: name, data: data, first: first}, tn
}

var noBig bool
var replayIn *input // set by -inhex: the only input to run

func hexOf(b []byte) string {
	if len(b) > 1600 {
		return ""
	}
	return hex.EncodeToString(b)
}

var defaultNet = &layers.IPv4{Version: 4, IHL: 5, TTL: 64, SrcIP: []byte{1, 2, 3, 4}, DstIP: []byte{5, 6, 7, 8}}

// linkChecksumNet gives every layer that wants one a network layer for its pseudo header: the nearest
// IPv4/IPv6 layer in front of it, or a fixed IPv4 header when the packet has none.
func linkChecksumNet(ls []gopacket.Layer) {
	var net gopacket.NetworkLayer = defaultNet
	for _, l := range ls {
		switch n := l.(type) {
		case *layers.IPv4:
			net = n
			continue
		case *layers.IPv6:
			net = n
			continue
		}
		if s, ok := l.(interface {
			SetNetworkLayerForChecksum(gopacket.NetworkLayer) error
		}); ok {
			s.SetNetworkLayerForChecksum(net)
		}
	}
}

func loadJSONLines(path string, mk func() interface{}, add func(interface{})) {
	readLines(path, func(b []byte) {
		v := mk()
		if err := json.Unmarshal(b, v); err != nil {
			vh.Fatal("bad line in", path, ":", err)
		}
		add(v)
	})
}

func main() {
	mode := flag.String("mode", "c07", "c07 | c06")
	out := flag.String("trace", "trace.ndjson", "output trace")
	n := flag.Int("n", 100, "number of corpus cases")
	seed := flag.Uint64("seed", 1, "seed")
	histFile := flag.String("hist", "", "c07: ndjson of histories exported by TLC from SerHistory.tla")
	khist := flag.Int("khist", 3, "c07: dirty histories per (layer, options)")
	probeH := flag.Bool("probe", false, "c07: record what every history really leaves in the buffer (hist events)")
	shapes := flag.String("shapes", "", "c06: ndjson of list-valued layer shapes exported by TLC from WireGen.tla")
	stacks := flag.String("stacks", "", "c06: ndjson of stacks exported by TLC from WireGen.tla")
	maxlen := flag.Int("maxlen", 9000, "maximum input length")
	only := flag.String("only", "", "c06: restrict to sources (comma list of fix,gen,stack)")
	part := flag.String("part", "0/1", "c06: process only TLC scenarios with index = i mod k (i/k)")
	flag.BoolVar(&noBig, "nobig", false, "c06: leave out the built-in > 64 KiB cases (replay)")
	inhex := flag.String("inhex", "", "replay: run only this input (hex) instead of sampling the corpus")
	inFirst := flag.String("first", "Ethernet", "replay: first layer type of -inhex")
	flag.Parse()
	if *inhex != "" {
		b, err := hex.DecodeString(*inhex)
		if err != nil {
			vh.Fatal("bad -inhex:", err)
		}
		replayIn = &input{name: "replay", data: b, first: layers.LayerTypeEthernet}
		for _, t := range corpus.RegisteredTypes() {
			if t.String() == *inFirst {
				replayIn.first = t
			}
		}
	}
	tr := vh.NewTrace(*out)
	stop := make(chan struct{})
	go watchdog(tr, stop)
	var st map[string]int
	switch *mode {
	case "c07":
		st = runC07(tr, *n, *seed, *histFile, *khist, *maxlen, *probeH)
	case "c06":
		st = runC06(tr, *n, *seed, *shapes, *stacks, *maxlen, *only, *part)
	default:
		vh.Fatal("unknown mode", *mode)
	}
	close(stop)
	tr.Close()
	st["events"] = tr.N
	b, _ := json.Marshal(st)
	fmt.Println(string(b))
}
