package main

import (
	"fmt"
	"strings"

	"github.com/gopacket/gopacket"
	"verif/harness/corpus"
)

func main() {
	for _, f := range corpus.Load() {
		if f.Name != "prism_test.go:TestPacketPrism#6" && f.Name != "linux_sll_oversized_addr.pcapng#7" {
			continue
		}
		for _, o := range []gopacket.DecodeOptions{{}, {Pool: true}, {NoCopy: true}} {
			buf := make([]byte, len(f.Data), len(f.Data)+48)
			copy(buf, f.Data)
			p := gopacket.NewPacket(buf, f.First, o)
			fmt.Println(f.Name, len(f.Data), o.Pool, o.NoCopy)
			for _, l := range p.Layers() {
				s := gopacket.LayerString(l)
				if len(s) > 300 {
					s = s[:300]
				}
				fmt.Println("   ", l.LayerType(), strings.ReplaceAll(s, "\n", " "))
			}
		}
	}
}
