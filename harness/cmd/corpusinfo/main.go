package main

import (
	"fmt"

	"verif/harness/corpus"
)

func main() {
	fx := corpus.Load()
	tot := 0
	for _, f := range fx {
		tot += len(f.Data)
	}
	fmt.Println("fixtures", len(fx), "bytes", tot, "types", len(corpus.RegisteredTypes()))
	for i := 0; i < len(fx); i += len(fx)/8 + 1 {
		fmt.Println(fx[i].Name, len(fx[i].Data), fx[i].First)
	}
}
