// reader: replays ReaderStream behaviours (delivery history + consumer program, exported by TLC from
// ReaderStream.tla) on the real tcpreader.ReaderStream with two goroutines and records what each Read
// returned.  A watchdog turns "both sides still blocked after the deadline" into a deadlock event.  C20.
package main

import (
	"bufio"
	"encoding/json"
	"flag"
	"fmt"
	"io"
	"os"
	"sync"
	"time"

	"github.com/gopacket/gopacket"
	"github.com/gopacket/gopacket/layers"
	"github.com/gopacket/gopacket/tcpassembly"
	"github.com/gopacket/gopacket/tcpassembly/tcpreader"
	"verif/harness/vh"
)

type scen struct {
	Hist [][][]int       `json:"hist"` // batches of [len, skip]
	Prog [][]interface{} `json:"prog"`
}

func idByte(id int) byte { return byte(id%251 + 1) }

type factory struct{ r *tcpreader.ReaderStream }

func (f *factory) New(a, b gopacket.Flow) tcpassembly.Stream { return f.r }

func runScenario(tr *vh.Trace, sc int, s scen, loss bool, viaAssembler bool, deadline time.Duration) bool {
	tr.Emit(vh.M{"op": "reset", "sc": sc, "loss": loss, "via": viaAssembler})
	r := tcpreader.NewReaderStream()
	r.LossErrors = loss
	var wg sync.WaitGroup
	wg.Add(2)
	var mu sync.Mutex
	emit := func(m vh.M) { mu.Lock(); m["sc"] = sc; tr.Emit(m); mu.Unlock() }
	guard := func(side string, f func()) {
		defer wg.Done()
		defer func() {
			if x := recover(); x != nil {
				emit(vh.M{"op": "panic", "side": side, "msg": fmt.Sprint(x)})
			}
		}()
		f()
	}
	// assembler side
	go guard("assembler", func() {
		id := 0
		if viaAssembler {
			// the same history pushed through a real Assembler: one in-order segment per chunk, a gap of
			// `skip` bytes in the sequence space before chunks that carry a skip, then FlushAll
			pool := tcpassembly.NewStreamPool(&factory{r: &r})
			asm := tcpassembly.NewAssembler(pool)
			nf, _ := gopacket.FlowFromEndpoints(layers.NewIPEndpoint([]byte{1, 2, 3, 4}), layers.NewIPEndpoint([]byte{5, 6, 7, 8}))
			seq := uint32(1000)
			syn := &layers.TCP{SrcPort: 1, DstPort: 2, SYN: true, Seq: seq}
			syn.SetInternalPortsForTesting()
			emit(vh.M{"op": "deliver", "batch": [][]int{{0, 0}}})
			asm.AssembleWithTimestamp(nf, syn, time.Unix(1, 0))
			seq++
			for _, b := range s.Hist {
				for _, c := range b {
					ln := c[0]
					if ln == 0 {
						continue
					}
					payload := make([]byte, ln)
					for i := range payload {
						payload[i] = idByte(id + i)
					}
					id += ln
					t := &layers.TCP{SrcPort: 1, DstPort: 2, ACK: true, Seq: seq}
					t.Payload = payload
					t.BaseLayer.Payload = payload
					t.SetInternalPortsForTesting()
					seq += uint32(ln)
					emit(vh.M{"op": "deliver", "batch": [][]int{{ln, 0}}})
					asm.AssembleWithTimestamp(nf, t, time.Unix(2, 0))
				}
			}
			emit(vh.M{"op": "complete"})
			asm.FlushAll()
			emit(vh.M{"op": "areturn"})
			return
		}
		for _, b := range s.Hist {
			var batch []tcpassembly.Reassembly
			for _, c := range b {
				ln, skip := c[0], c[1]
				payload := make([]byte, ln)
				for i := range payload {
					payload[i] = idByte(id + i)
				}
				id += ln
				batch = append(batch, tcpassembly.Reassembly{Bytes: payload, Skip: skip})
			}
			emit(vh.M{"op": "deliver", "batch": b})
			r.Reassembled(batch)
		}
		emit(vh.M{"op": "complete"})
		r.ReassemblyComplete()
		emit(vh.M{"op": "areturn"})
	})
	// consumer side
	go guard("consumer", func() {
		next := 0
		for _, op := range s.Prog {
			switch op[0].(string) {
			case "read":
				n := int(op[1].(float64))
				buf := make([]byte, n)
				k, err := r.Read(buf)
				okc := true
				for i := 0; i < k; i++ {
					if buf[i] != idByte(next+i) {
						okc = false
					}
				}
				e := ""
				if err == io.EOF {
					e = "EOF"
				} else if err == tcpreader.DataLost {
					e = "DataLost"
				} else if err != nil {
					e = "other:" + err.Error()
				}
				emit(vh.M{"op": "read", "n": n, "k": k, "err": e, "content": okc, "at": next})
				next += k
			case "close":
				emit(vh.M{"op": "close"})
				r.Close()
				emit(vh.M{"op": "closed"})
			}
		}
		emit(vh.M{"op": "rreturn"})
	})
	done := make(chan struct{})
	go func() { wg.Wait(); close(done) }()
	select {
	case <-done:
		emit(vh.M{"op": "end"})
		return true
	case <-time.After(deadline):
		emit(vh.M{"op": "deadlock"})
		emit(vh.M{"op": "end"})
		return false
	}
}

func main() {
	in := flag.String("scenarios", "", "ndjson of TLC-exported behaviours")
	out := flag.String("trace", "trace.ndjson", "trace output")
	deadline := flag.Duration("deadline", 2*time.Second, "deadlock watchdog")
	maxDead := flag.Int("maxdeadlocks", 40, "stop after this many deadlocks (each costs the deadline)")
	flag.Parse()
	tr := vh.NewTrace(*out)
	f, err := os.Open(*in)
	if err != nil {
		vh.Fatal(err)
	}
	rd := bufio.NewScanner(f)
	rd.Buffer(make([]byte, 1<<20), 1<<24)
	sc, dead := 0, 0
	for rd.Scan() {
		var s scen
		if err := json.Unmarshal(rd.Bytes(), &s); err != nil {
			vh.Fatal("bad scenario", err)
		}
		for _, loss := range []bool{true, false} {
			sc++
			if !runScenario(tr, sc, s, loss, false, *deadline) {
				dead++
			}
		}
		// through a real Assembler (no skips possible in an in-order feed: only for histories without skips)
		noskip := true
		for _, b := range s.Hist {
			for _, c := range b {
				if c[1] != 0 {
					noskip = false
				}
			}
		}
		if noskip {
			sc++
			if !runScenario(tr, sc, s, true, true, *deadline) {
				dead++
			}
		}
		if dead >= *maxDead {
			break
		}
	}
	tr.Close()
	fmt.Printf("{\"scenarios\":%d,\"events\":%d,\"deadlocks\":%d}\n", sc, tr.N, dead)
}
