// flow: builds the endpoints and flows exported by TLC from FlowGen.tla (and seeded random ones beyond its
// bound) with the real gopacket.NewEndpoint / NewFlow / FlowFromEndpoints, and records for every pair what
// the real code answers (==, map-key collision, LessThan, Reverse, Endpoints, FastHash equality).  For real
// packets of the corpus it records, for every decoded layer exposing LinkFlow / NetworkFlow / TransportFlow,
// the flow next to the layer's own address fields, and the flow of the packet with source and destination
// swapped.  Nothing is decided here: TLC judges every line against Flow.tla (FlowTrace.tla).  C17.
package main

import (
	"bufio"
	"bytes"
	"encoding/json"
	"flag"
	"fmt"
	"net"
	"os"
	"reflect"
	"strings"
	"sync/atomic"
	"time"

	"github.com/gopacket/gopacket"
	"github.com/gopacket/gopacket/layers"
	"verif/harness/corpus"
	"verif/harness/vh"
)

type epv struct {
	T int
	B []byte
}
type flv struct {
	T    int
	S, D []byte
}

func (e epv) rec() vh.M { return vh.M{"t": e.T, "b": vh.Ints(e.B)} }
func (f flv) rec() vh.M { return vh.M{"t": f.T, "s": vh.Ints(f.S), "d": vh.Ints(f.D)} }

func epRec(e gopacket.Endpoint) vh.M {
	return vh.M{"t": clampT(int64(e.EndpointType())), "b": vh.Ints(e.Raw())}
}
func flRec(f gopacket.Flow) vh.M {
	s, d := f.Endpoints()
	return vh.M{"t": clampT(int64(f.EndpointType())), "s": vh.Ints(s.Raw()), "d": vh.Ints(d.Raw())}
}

// TLC integers are 32-bit: a type outside that range (never built by this driver) is mapped to a marker
func clampT(t int64) int {
	if t > 2000000000 || t < -2000000000 {
		return -2000000001
	}
	return int(t)
}

// dirty returns b as a slice of a larger array whose remaining capacity holds non-zero stale bytes
func dirty(b []byte) []byte {
	arr := make([]byte, len(b)+24)
	for i := range arr {
		arr[i] = 0xA0 | byte(i&0xf) | 1
	}
	copy(arr, b)
	return arr[:len(b)]
}

var other = []byte{0xde, 0xad, 0xbe, 0xef, 0x01}

// buildEP builds the endpoint value e by one of several routes through the public API
func buildEP(e epv, route int) gopacket.Endpoint {
	t := gopacket.EndpointType(e.T)
	switch route % 4 {
	case 1:
		return gopacket.NewFlow(t, dirty(e.B), dirty(other)).Src()
	case 2:
		return gopacket.NewFlow(t, dirty(other), dirty(e.B)).Dst()
	case 3:
		f, err := gopacket.FlowFromEndpoints(gopacket.NewEndpoint(t, dirty(e.B)), gopacket.NewEndpoint(t, dirty(other)))
		if err != nil {
			panic("FlowFromEndpoints of equal types failed: " + err.Error())
		}
		return f.Reverse().Dst()
	}
	return gopacket.NewEndpoint(t, dirty(e.B))
}

func buildFL(f flv, route int) gopacket.Flow {
	t := gopacket.EndpointType(f.T)
	switch route % 3 {
	case 1:
		r, err := gopacket.FlowFromEndpoints(gopacket.NewEndpoint(t, dirty(f.S)), gopacket.NewEndpoint(t, dirty(f.D)))
		if err != nil {
			panic("FlowFromEndpoints of equal types failed: " + err.Error())
		}
		return r
	case 2:
		return gopacket.NewFlow(t, dirty(f.D), dirty(f.S)).Reverse()
	}
	return gopacket.NewFlow(t, dirty(f.S), dirty(f.D))
}

// conv is the flow a decoded layer reported next to the value its address fields demand
type conv struct {
	f    gopacket.Flow
	want flv
}

type driver struct {
	collect bool
	conv    map[string][]conv
	nconv   map[string]int
	tr      *vh.Trace
	sc      int
	seenEP  map[string]bool
	seenFL  map[string]bool
	seenLy  map[string]bool
	stats   map[string]int
	ltypes  map[string]int
}

var progress atomic.Int64

func (d *driver) emit(ev vh.M) {
	ev["sc"] = d.sc
	if _, ok := ev["lt"]; !ok {
		ev["lt"] = ""
	}
	d.stats[ev["op"].(string)]++
	d.tr.Emit(ev)
}

// guard runs one observation; a panic that is not an expected constructor rejection becomes an event
func (d *driver) guard(what string, f func()) {
	msg, site, p := vh.Guard(f)
	if p {
		if len(msg) > 120 {
			msg = msg[:120]
		}
		d.emit(vh.M{"op": "panic", "what": what, "msg": msg, "site": site})
	}
}

func (d *driver) obsEP(e epv) {
	k := fmt.Sprint(e.T, e.B)
	if d.seenEP[k] {
		return
	}
	d.seenEP[k] = true
	ev := vh.M{"op": "ep", "t": e.T, "b": vh.Ints(e.B), "res": "ok", "got": vh.M{"t": 0, "b": []int{}}}
	var got gopacket.Endpoint
	_, _, p := vh.Guard(func() { got = gopacket.NewEndpoint(gopacket.EndpointType(e.T), dirty(e.B)) })
	if p {
		ev["res"] = "panic"
		d.emit(ev)
		return
	}
	// a value that cannot even be read back (panic) is recorded as accepted with an empty reading
	vh.Guard(func() { ev["got"] = epRec(got) })
	d.emit(ev)
}

func (d *driver) obsFL(f flv) {
	k := fmt.Sprint(f.T, f.S, "|", f.D)
	if d.seenFL[k] {
		return
	}
	d.seenFL[k] = true
	ev := vh.M{"op": "fl", "t": f.T, "s": vh.Ints(f.S), "d": vh.Ints(f.D), "res": "ok", "got": vh.M{"t": 0, "s": []int{}, "d": []int{}}}
	var got gopacket.Flow
	_, _, p := vh.Guard(func() { got = gopacket.NewFlow(gopacket.EndpointType(f.T), dirty(f.S), dirty(f.D)) })
	if p {
		ev["res"] = "panic"
		d.emit(ev)
		return
	}
	vh.Guard(func() { ev["got"] = flRec(got) })
	d.emit(ev)
}

func (d *driver) obsEPair(a, b epv, ra, rb int) {
	d.guard("epair", func() {
		ea, eb := buildEP(a, ra), buildEP(b, rb)
		m := map[gopacket.Endpoint]int{}
		m[ea] = 1
		m[eb] = 2
		d.emit(vh.M{"op": "epair", "a": a.rec(), "b": b.rec(), "eq": ea == eb, "mapn": len(m),
			"ltab": ea.LessThan(eb), "ltba": eb.LessThan(ea), "heq": ea.FastHash() == eb.FastHash()})
	})
}

func (d *driver) obsJoin(a, b epv, ra, rb int) {
	d.guard("join", func() {
		ea, eb := buildEP(a, ra), buildEP(b, rb)
		f, err := gopacket.FlowFromEndpoints(ea, eb)
		zero := vh.M{"t": 0, "s": []int{}, "d": []int{}}
		ev := vh.M{"op": "join", "a": a.rec(), "b": b.rec(), "res": "ok", "f": zero, "rev": zero,
			"src": vh.M{"t": 0, "b": []int{}}, "dst": vh.M{"t": 0, "b": []int{}},
			"spliteq": false, "rejoineq": false, "neweq": false, "revjoineq": false, "revreveq": false, "hrev": false}
		if err != nil {
			ev["res"] = "err"
			d.emit(ev)
			return
		}
		s, dd := f.Endpoints()
		ev["f"] = flRec(f)
		ev["src"], ev["dst"] = epRec(s), epRec(dd)
		ev["spliteq"] = s == ea && dd == eb && f.Src() == ea && f.Dst() == eb
		rj, err2 := gopacket.FlowFromEndpoints(s, dd)
		ev["rejoineq"] = err2 == nil && rj == f
		if len(a.B) <= gopacket.MaxEndpointSize && len(b.B) <= gopacket.MaxEndpointSize {
			ev["neweq"] = gopacket.NewFlow(gopacket.EndpointType(a.T), dirty(a.B), dirty(b.B)) == f
		}
		rv := f.Reverse()
		ev["rev"] = flRec(rv)
		ba, err3 := gopacket.FlowFromEndpoints(eb, ea)
		ev["revjoineq"] = err3 == nil && ba == rv
		ev["revreveq"] = rv.Reverse() == f
		ev["hrev"] = f.FastHash() == rv.FastHash()
		d.emit(ev)
	})
}

func (d *driver) obsFPair(f, g flv, rf, rg int) {
	d.guard("fpair", func() {
		ff, gg := buildFL(f, rf), buildFL(g, rg)
		m := map[gopacket.Flow]int{}
		m[ff] = 1
		m[gg] = 2
		d.emit(vh.M{"op": "fpair", "f": f.rec(), "g": g.rec(), "eq": ff == gg, "mapn": len(m),
			"heq": ff.FastHash() == gg.FastHash()})
	})
}

// conversations: the flows reported for layers with different addresses are different values, different
// map keys; those of one conversation (either direction) hash alike.  The values judged are the layers' fields.
func (d *driver) conversations() {
	for _, kind := range []string{"link", "network", "transport"} {
		cs := d.conv[kind]
		for i := range cs {
			for j := i; j < len(cs); j++ {
				d.sc++
				a, b := cs[i], cs[j]
				d.guard("conv", func() {
					m := map[gopacket.Flow]int{}
					m[a.f] = 1
					m[b.f] = 2
					d.emit(vh.M{"op": "fpair", "f": a.want.rec(), "g": b.want.rec(), "eq": a.f == b.f, "mapn": len(m),
						"heq": a.f.FastHash() == b.f.FastHash(), "kind": kind})
				})
			}
		}
	}
}

// ---------------------------------------------------------------------------------------------
// TLC export lines

func toBytes(x interface{}) []byte {
	arr, _ := x.([]interface{})
	b := make([]byte, len(arr))
	for i, v := range arr {
		b[i] = byte(int(v.(float64)))
	}
	return b
}
func toEP(x interface{}) epv {
	a := x.([]interface{})
	return epv{T: int(a[0].(float64)), B: toBytes(a[1])}
}
func toFL(x interface{}) flv {
	a := x.([]interface{})
	return flv{T: int(a[0].(float64)), S: toBytes(a[1]), D: toBytes(a[2])}
}

func (d *driver) replayLine(line string, n int) {
	i := strings.IndexByte(line, ' ')
	if i < 0 {
		vh.Fatal("bad scenario line", line)
	}
	var v interface{}
	if err := json.Unmarshal([]byte(line[i+1:]), &v); err != nil {
		vh.Fatal("bad scenario json", line, err)
	}
	switch line[:i] {
	case "EPAIR":
		p := v.([]interface{})
		a, b := toEP(p[0]), toEP(p[1])
		d.obsEP(a)
		d.obsEP(b)
		d.obsEPair(a, b, 0, 1)
		d.obsEPair(a, b, 2+n%2, (n/2)%4)
		d.obsJoin(a, b, n%4, (n/4)%4)
	case "FPAIR":
		p := v.([]interface{})
		f, g := toFL(p[0]), toFL(p[1])
		d.obsFL(f)
		d.obsFL(g)
		d.obsFPair(f, g, 0, 1)
		d.obsFPair(f, g, 2, n%3)
	case "BADEP":
		d.obsEP(toEP(v))
	case "BADFL":
		d.obsFL(toFL(v))
	default:
		vh.Fatal("unknown scenario kind", line)
	}
}

// ---------------------------------------------------------------------------------------------
// seeded random values beyond the model's bound (any byte values, any length 0..16, odd types)

var randTypes = []int{-5, 0, 1, 2, 3, 7, 1000, 2000000000}

func randBytes(r *vh.Rand) []byte {
	n := []int{0, 1, 2, 3, 4, 6, 8, 15, 16, 16}[r.Intn(10)]
	if r.Intn(4) == 0 {
		n = r.Intn(17)
	}
	b := r.Bytes(n)
	if r.Intn(3) == 0 { // trailing zeros: what a zero-padded array cannot tell from a shorter value
		for i := r.Intn(n + 1); i < n; i++ {
			b[i] = 0
		}
	}
	return b
}

// near returns a value related to b: equal, a prefix, zero-extended, one byte changed, or unrelated
func near(r *vh.Rand, b []byte) []byte {
	c := append([]byte(nil), b...)
	switch r.Intn(7) {
	case 0:
		return c
	case 1:
		return c[:r.Intn(len(c)+1)]
	case 2:
		for len(c) < 16 && r.Intn(3) != 0 {
			c = append(c, 0)
		}
		return c
	case 3:
		if len(c) > 0 {
			c[r.Intn(len(c))] ^= 1 << uint(r.Intn(8))
		}
		return c
	case 4:
		if len(c) > 0 && len(c) < 16 {
			return append(c, byte(r.U64()))
		}
		return c
	case 5:
		if len(c) > 0 {
			c[len(c)-1] = 0
		}
		return c
	}
	return randBytes(r)
}

func (d *driver) random(r *vh.Rand, n int) {
	for i := 0; i < n; i++ {
		d.sc++
		progress.Store(int64(d.sc))
		a := epv{T: randTypes[r.Intn(len(randTypes))], B: randBytes(r)}
		b := epv{T: a.T, B: near(r, a.B)}
		if r.Intn(5) == 0 {
			b.T = randTypes[r.Intn(len(randTypes))]
		}
		d.obsEP(a)
		d.obsEPair(a, b, r.Intn(4), r.Intn(4))
		d.obsJoin(a, b, r.Intn(4), r.Intn(4))
		f := flv{T: a.T, S: a.B, D: randBytes(r)}
		var g flv
		switch r.Intn(6) {
		case 0:
			g = f
		case 1:
			g = flv{T: f.T, S: f.D, D: f.S}
		case 2: // same concatenation, different split
			cat := append(append([]byte(nil), f.S...), f.D...)
			if len(cat) > 16 {
				cat = cat[:16]
			}
			k := r.Intn(len(cat) + 1)
			g = flv{T: f.T, S: cat[:k], D: cat[k:]}
		case 3:
			g = flv{T: f.T, S: near(r, f.S), D: f.D}
		case 4:
			g = flv{T: f.T, S: near(r, f.D), D: near(r, f.S)}
		default:
			g = flv{T: randTypes[r.Intn(len(randTypes))], S: f.S, D: f.D}
		}
		d.obsFL(f)
		d.obsFPair(f, g, r.Intn(3), r.Intn(3))
	}
}

// ---------------------------------------------------------------------------------------------
// decoded layers of real packets

type flowFn struct {
	kind     string
	fn       func() gopacket.Flow
	src, dst string // address field names of the layer
}

func flowFns(l gopacket.Layer) []flowFn {
	var out []flowFn
	if x, ok := l.(interface{ LinkFlow() gopacket.Flow }); ok {
		out = append(out, flowFn{"link", x.LinkFlow, "SrcMAC", "DstMAC"})
	}
	if x, ok := l.(interface{ NetworkFlow() gopacket.Flow }); ok {
		out = append(out, flowFn{"network", x.NetworkFlow, "SrcIP", "DstIP"})
	}
	if x, ok := l.(interface{ TransportFlow() gopacket.Flow }); ok {
		out = append(out, flowFn{"transport", x.TransportFlow, "SrcPort", "DstPort"})
	}
	return out
}

// fieldBytes returns the address field `name` of layer l as raw bytes: byte slices as they are (IPv4
// addresses of an IPv4 layer in 4-byte form), unsigned integers big-endian in their declared width.
// raw is the field's own slice (nil for integers), used to locate it in the packet data.
func fieldBytes(l gopacket.Layer, name string, ipv4 bool) (val []byte, raw []byte, ok bool) {
	v := reflect.ValueOf(l)
	if v.Kind() != reflect.Ptr || v.Elem().Kind() != reflect.Struct {
		return nil, nil, false
	}
	f := v.Elem().FieldByName(name)
	if !f.IsValid() {
		return nil, nil, false
	}
	switch f.Kind() {
	case reflect.Slice:
		if f.Type().Elem().Kind() != reflect.Uint8 {
			return nil, nil, false
		}
		b := f.Bytes()
		if ipv4 {
			if v4 := net.IP(b).To4(); v4 != nil {
				return v4, b, true
			}
		}
		return b, b, true
	case reflect.Uint8, reflect.Uint16, reflect.Uint32, reflect.Uint64:
		n := int(f.Type().Size())
		out := make([]byte, n)
		u := f.Uint()
		for i := n - 1; i >= 0; i-- {
			out[i] = byte(u)
			u >>= 8
		}
		return out, nil, true
	}
	return nil, nil, false
}

// where ports sit inside the layer's header (offset of source, offset of destination, width)
var portAt = map[string][3]int{"TCP": {0, 2, 2}, "UDP": {0, 2, 2}, "SCTP": {0, 2, 2}, "UDPLite": {0, 2, 2}, "RUDP": {2, 3, 1}}

// offsetIn returns the offset of sub within data if sub is a subslice of data (same backing array)
func offsetIn(data, sub []byte) int {
	if len(sub) == 0 || cap(sub) > cap(data) {
		return -1
	}
	off := cap(data) - cap(sub)
	if off < 0 || off+len(sub) > len(data) || &data[off] != &sub[0] {
		return -1
	}
	return off
}

// locate finds where the layer's two address fields (of equal width) sit in the packet data
func locate(data []byte, l gopacket.Layer, lt string, src, dst, srcRaw, dstRaw []byte) (so, do int, ok bool) {
	so, do = offsetIn(data, srcRaw), offsetIn(data, dstRaw)
	if srcRaw == nil {
		at, okp := portAt[lt]
		base := offsetIn(data, l.LayerContents())
		if !okp || base < 0 || at[2] != len(src) {
			return 0, 0, false
		}
		so, do = base+at[0], base+at[1]
	} else if len(srcRaw) != len(src) { // 16-byte form of an IPv4 address: the last four bytes
		so, do = so+len(srcRaw)-len(src), do+len(dstRaw)-len(dst)
	}
	n := len(src)
	if so < 0 || do < 0 || so+n > len(data) || do+n > len(data) ||
		!bytes.Equal(data[so:so+n], src) || !bytes.Equal(data[do:do+n], dst) {
		return 0, 0, false
	}
	return so, do, true
}

// addresses with a special meaning or shape, by field width.  A flow must carry them byte for byte under the
// layer's own endpoint type: an IPv4-mapped IPv6 address is still 16 bytes of an IPv6 layer.
var special = map[int][][]byte{
	16: {
		make([]byte, 16), // ::
		{15: 1},          // ::1
		{10: 0xff, 11: 0xff, 12: 1, 13: 2, 14: 3, 15: 4},              // ::ffff:1.2.3.4 (IPv4-mapped)
		{10: 0xff, 11: 0xff, 12: 10, 13: 0, 14: 0, 15: 0},             // ::ffff:10.0.0.0
		{10: 0xff, 11: 0xff, 15: 0},                                   // ::ffff:0.0.0.0
		{12: 1, 13: 2, 14: 3, 15: 4},                                  // ::1.2.3.4 (IPv4-compatible)
		{0: 0, 1: 0x64, 2: 0xff, 3: 0x9b, 12: 1, 13: 2, 14: 3, 15: 4}, // 64:ff9b::1.2.3.4
		{0: 0xff, 1: 0x02, 15: 1},                                     // ff02::1
		{0: 0xfe, 1: 0x80, 15: 1},                                     // fe80::1
		{0: 0xfe, 1: 0x80, 8: 2, 11: 0xff, 12: 0xfe, 15: 0},           // fe80::200:ff:fe00:0 (ends in zeros)
		{0: 0x20, 1: 0x01, 2: 0x0d, 3: 0xb8, 15: 0},                   // 2001:db8::
		{8: 0x20, 9: 0x01, 15: 9},                                     // starts with zero bytes
		{0: 0x20, 1: 0x01, 2: 0x0d, 3: 0xb8, 15: 1},                   // 2001:db8::1
	},
	4: {{0, 0, 0, 0}, {255, 255, 255, 255}, {127, 0, 0, 1}, {10, 0, 0, 0}, {0, 0, 0, 1}, {1, 2, 3, 4}, {224, 0, 0, 1}},
	6: {{0, 0, 0, 0, 0, 0}, {255, 255, 255, 255, 255, 255}, {2, 0, 0, 0, 0, 0}, {0, 0, 0, 0, 0, 1}, {0, 0x1b, 0x21, 1, 2, 3}},
	2: {{0, 0}, {255, 255}, {1, 0}, {0, 1}, {255, 0}, {0, 80}},
	1: {{0}, {255}, {1}},
}

// flows kept per layer type for the pairwise comparison of conversations
var convCap = map[string]int{"link": 25, "network": 36, "transport": 8}

// coreAddr: the addresses whose flows are compared pairwise as conversations (all pairs of all special values
// would be too many lines): the IPv6 forms that embed an IPv4 address next to those IPv4 addresses themselves.
func coreAddr(b []byte) bool {
	var idx []int
	switch len(b) {
	case 16:
		idx = []int{0, 2, 3, 5, 6, 10}
	case 4:
		idx = []int{0, 1, 3, 5, 2}
	default:
		return true
	}
	for _, i := range idx {
		if bytes.Equal(special[len(b)][i], b) {
			return true
		}
	}
	return false
}

// rewritten returns a copy of the packet in which the two address fields of every flow-exposing layer are
// overwritten with special values of the field's width (nil if nothing could be located).
func rewritten(r *vh.Rand, orig []byte, first gopacket.LayerType) []byte {
	data := exact(orig)
	out := exact(orig)
	ls, _ := decode(data, first)
	hit := false
	for _, l := range ls {
		lt := l.LayerType().String()
		for _, ff := range flowFns(l) {
			src, srcRaw, okS := fieldBytes(l, ff.src, lt == "IPv4")
			dst, dstRaw, okD := fieldBytes(l, ff.dst, lt == "IPv4")
			if !okS || !okD || len(src) != len(dst) || len(special[len(src)]) == 0 {
				continue
			}
			so, do, ok := locate(data, l, lt, src, dst, srcRaw, dstRaw)
			if !ok {
				continue
			}
			sp := special[len(src)]
			a, b := sp[r.Intn(len(sp))], sp[r.Intn(len(sp))]
			switch r.Intn(4) {
			case 0: // source only
				b = dst
			case 1: // destination only
				a = src
			}
			copy(out[so:], a)
			copy(out[do:], b)
			hit = true
		}
	}
	if !hit {
		return nil
	}
	return out
}

var decOpts = gopacket.DecodeOptions{NoCopy: true, DecodeStreamsAsDatagrams: true}

func decode(data []byte, first gopacket.LayerType) (ls []gopacket.Layer, failed bool) {
	vh.Guard(func() {
		p := gopacket.NewPacket(data, first, decOpts)
		ls = p.Layers()
		failed = p.ErrorLayer() != nil
	})
	return
}

// exact returns a copy with capacity == length (offsets of layer fields are computed from capacities, and
// NewPacket may clip a NoCopy buffer to its length)
func exact(b []byte) []byte {
	c := make([]byte, len(b))
	copy(c, b)
	return c
}

func (d *driver) packet(name string, orig []byte, first gopacket.LayerType) {
	data := exact(orig)
	ls, failed := decode(data, first)
	for i, l := range ls {
		fns := flowFns(l)
		if len(fns) == 0 {
			continue
		}
		if failed && len(l.LayerContents()) == 0 {
			continue // a layer object added although its decoding failed: not a decoded layer
		}
		lt := l.LayerType().String()
		for _, ff := range fns {
			srcName, dstName := ff.src, ff.dst
			src, srcRaw, okS := fieldBytes(l, srcName, lt == "IPv4")
			dst, dstRaw, okD := fieldBytes(l, dstName, lt == "IPv4")
			if !okS && !okD {
				// layers with a single address (Linux cooked capture) or none (PPP)
				src, srcRaw, okS = fieldBytes(l, "Addr", false)
			}
			var f gopacket.Flow
			_, _, p := vh.Guard(func() { f = ff.fn() })
			ev := vh.M{"op": "layer", "lt": lt, "kind": ff.kind, "res": "ok", "f": vh.M{"t": 0, "s": []int{}, "d": []int{}},
				"src": vh.Ints(src), "dst": vh.Ints(dst), "pkt": name, "li": i}
			if len(src) > 40 || len(dst) > 40 { // keep the line small; the judge needs at most 17 bytes
				ev["src"], ev["dst"] = vh.Ints(src[:min(len(src), 40)]), vh.Ints(dst[:min(len(dst), 40)])
			}
			if p {
				ev["res"] = "panic"
			} else {
				ev["f"] = flRec(f)
			}
			key := fmt.Sprint("L", lt, ff.kind, p, ev["f"], src, dst)
			if d.seenLy[key] {
				d.stats["layer_dup"]++
			} else {
				d.seenLy[key] = true
				d.ltypes[lt]++
				d.emit(ev)
			}
			if !p && d.collect && len(src) <= gopacket.MaxEndpointSize && len(dst) <= gopacket.MaxEndpointSize {
				ck := fmt.Sprint(ff.kind, ev["f"], src, dst)
				if !d.seenLy["C"+ck] && d.nconv[lt] < convCap[ff.kind] && coreAddr(src) && coreAddr(dst) {
					d.seenLy["C"+ck] = true
					d.nconv[lt]++
					d.conv[ff.kind] = append(d.conv[ff.kind], conv{f, flv{T: clampT(int64(f.EndpointType())),
						S: append([]byte(nil), src...), D: append([]byte(nil), dst...)}})
				}
			}
			if p || !okS || !okD || len(src) != len(dst) || len(src) == 0 {
				continue
			}
			// the other direction of the conversation: the same packet with the two address fields swapped
			n := len(src)
			so, do, okL := locate(data, l, lt, src, dst, srcRaw, dstRaw)
			if !okL {
				d.stats["swap_unlocated"]++
				continue
			}
			d2 := exact(data)
			copy(d2[so:so+n], dst)
			copy(d2[do:do+n], src)
			ls2, _ := decode(d2, first)
			if i >= len(ls2) || ls2[i].LayerType() != l.LayerType() {
				d.stats["swap_redecode_differs"]++
				continue
			}
			var g gopacket.Flow
			var fn2 func() gopacket.Flow
			for _, x := range flowFns(ls2[i]) {
				if x.kind == ff.kind {
					fn2 = x.fn
				}
			}
			_, _, p2 := vh.Guard(func() { g = fn2() })
			sv := vh.M{"op": "swap", "lt": lt, "kind": ff.kind, "res": "ok", "f": flRec(f), "g": vh.M{"t": 0, "s": []int{}, "d": []int{}},
				"goeq": false, "heq": false, "pkt": name, "li": i}
			if p2 {
				sv["res"] = "panic"
			} else {
				sv["g"] = flRec(g)
				sv["goeq"] = g == f.Reverse() && g.Reverse() == f
				sv["heq"] = g.FastHash() == f.FastHash()
			}
			key = fmt.Sprint("S", lt, ff.kind, p2, sv["f"], sv["g"], sv["goeq"], sv["heq"])
			if d.seenLy[key] {
				d.stats["swap_dup"]++
				continue
			}
			d.seenLy[key] = true
			d.emit(sv)
		}
	}
}

// synth builds a few packets for flow-exposing layers the repository's fixtures lack (FDDI, UDPLite, RUDP,
// SCTP over IPv6) and for address shapes a zero-padded array confuses (addresses and ports ending in zeros).
func synth() []corpus.Fixture {
	var out []corpus.Fixture
	ip4 := func(proto byte, src, dst [4]byte, pl []byte) []byte {
		n := 20 + len(pl)
		h := []byte{0x45, 0, byte(n >> 8), byte(n), 0, 1, 0, 0, 64, proto, 0, 0}
		h = append(append(h, src[:]...), dst[:]...)
		return append(h, pl...)
	}
	ip6 := func(next byte, src, dst [16]byte, pl []byte) []byte {
		h := []byte{0x60, 0, 0, 0, byte(len(pl) >> 8), byte(len(pl)), next, 64}
		h = append(append(h, src[:]...), dst[:]...)
		return append(h, pl...)
	}
	eth := func(src, dst [6]byte, et uint16, pl []byte) []byte {
		h := append(append([]byte{}, dst[:]...), src[:]...)
		return append(append(h, byte(et>>8), byte(et)), pl...)
	}
	ports := func(s, d uint16, rest int) []byte {
		b := make([]byte, 4+rest)
		b[0], b[1], b[2], b[3] = byte(s>>8), byte(s), byte(d>>8), byte(d)
		return b
	}
	a4 := [][4]byte{{10, 0, 0, 0}, {0, 0, 0, 0}, {10, 0, 0, 1}, {255, 255, 255, 255}, {10, 0, 0, 0}}
	a6 := [][16]byte{{0x20, 1}, {}, {0xfe, 0x80, 15: 1}, {0x20, 1, 15: 0}}
	mac := [][6]byte{{2, 0, 0, 0, 0, 0}, {}, {2, 0, 0, 0, 0, 1}, {255, 255, 255, 255, 255, 255}}
	pp := [][2]uint16{{0, 0}, {256, 1}, {1, 256}, {0x0100, 0x0100}, {65535, 0}, {53, 53000}}
	k := 0
	add := func(name string, first gopacket.LayerType, d []byte) {
		k++
		out = append(out, corpus.Fixture{Name: fmt.Sprintf("synth:%s#%d", name, k), Data: d, First: first})
	}
	for i, p := range pp {
		s4, d4 := a4[i%len(a4)], a4[(i+1)%len(a4)]
		s6, d6 := a6[i%len(a6)], a6[(i+1)%len(a6)]
		sm, dm := mac[i%len(mac)], mac[(i+2)%len(mac)]
		udpl := ports(p[0], p[1], 4+6)
		tcp := ports(p[0], p[1], 16)
		tcp[12] = 0x50
		udp := ports(p[0], p[1], 4+5)
		udp[5] = 13
		sctp := ports(p[0], p[1], 8)
		rudp := make([]byte, 18+3)
		rudp[0], rudp[1], rudp[2], rudp[3], rudp[5] = 0x40, 9, byte(p[0]), byte(p[1]), 3
		add("udplite4", layers.LayerTypeEthernet, eth(sm, dm, 0x0800, ip4(136, s4, d4, udpl)))
		add("udplite6", layers.LayerTypeEthernet, eth(sm, dm, 0x86dd, ip6(136, s6, d6, udpl)))
		add("rudp4", layers.LayerTypeEthernet, eth(dm, sm, 0x0800, ip4(27, d4, s4, rudp)))
		add("tcp6", layers.LayerTypeEthernet, eth(sm, dm, 0x86dd, ip6(6, s6, d6, tcp)))
		add("udp4", layers.LayerTypeIPv4, ip4(17, s4, d4, udp))
		add("sctp6", layers.LayerTypeIPv6, ip6(132, s6, d6, sctp))
		fddi := append([]byte{0x50}, sm[:]...)
		fddi = append(fddi, dm[:]...)
		fddi = append(fddi, 0xaa, 0xaa, 0x03, 0, 0, 0, 0x08, 0x00)
		add("fddi", layers.LayerTypeFDDI, append(fddi, ip4(6, s4, d4, tcp)...))
		// Linux cooked capture, address lengths 0, 6, 8 and (malformed) 16, 17, 24: longer than a flow can carry
		for _, al := range []int{0, 6, 8, 16, 17, 24} {
			sll := make([]byte, 16)
			sll[5] = byte(al)
			copy(sll[6:], sm[:])
			sll[14], sll[15] = 0x08, 0x00
			add("sll", layers.LayerTypeLinuxSLL, append(sll, ip4(17, s4, d4, udp)...))
			sll2 := make([]byte, 20)
			sll2[0], sll2[1], sll2[9], sll2[11] = 0x08, 0x00, 1, byte(al)
			copy(sll2[12:], sm[:])
			add("sll2", layers.LayerTypeLinuxSLL2, append(sll2, ip4(17, s4, d4, udp)...))
		}
	}
	return out
}

// specials builds packets whose address fields run over the special values: every ordered pair of IPv6
// and of IPv4 addresses, with MACs, ports and the transport protocol rotating.
func specials() []corpus.Fixture {
	var out []corpus.Fixture
	k := 0
	tr := func(proto int, sp, dp []byte) (byte, []byte) {
		switch proto % 5 {
		case 0:
			b := make([]byte, 20)
			copy(b, sp)
			copy(b[2:], dp)
			b[12] = 0x50
			return 6, b
		case 1:
			b := make([]byte, 8)
			copy(b, sp)
			copy(b[2:], dp)
			b[5] = 8
			return 17, b
		case 2:
			b := make([]byte, 12)
			copy(b, sp)
			copy(b[2:], dp)
			return 132, b
		case 3:
			b := make([]byte, 8)
			copy(b, sp)
			copy(b[2:], dp)
			b[5] = 8
			return 136, b
		}
		b := make([]byte, 18)
		b[0], b[1], b[2], b[3] = 0x40, 9, sp[1], dp[1]
		return 27, b
	}
	frame := func(v6 bool, src, dst []byte) {
		k++
		m, pt := special[6], special[2]
		proto, pl := tr(k, pt[k%len(pt)], pt[(k/len(pt))%len(pt)])
		var ip []byte
		et := []byte{0x08, 0x00}
		if v6 {
			et = []byte{0x86, 0xdd}
			ip = append([]byte{0x60, 0, 0, 0, 0, byte(len(pl)), proto, 64}, src...)
		} else {
			n := 20 + len(pl)
			ip = append([]byte{0x45, 0, 0, byte(n), 0, 1, 0, 0, 64, proto, 0, 0}, src...)
		}
		ip = append(append(ip, dst...), pl...)
		fr := append(append([]byte{}, m[(k/3)%len(m)]...), m[k%len(m)]...)
		fr = append(append(fr, et...), ip...)
		out = append(out, corpus.Fixture{Name: fmt.Sprintf("special:%d", k), Data: fr, First: layers.LayerTypeEthernet})
	}
	for _, a := range special[16] {
		for _, b := range special[16] {
			frame(true, a, b)
		}
	}
	for _, a := range special[4] {
		for _, b := range special[4] {
			frame(false, a, b)
		}
	}
	return out
}

func watchdog(tr *vh.Trace) {
	last, stuck := int64(-1), 0
	for {
		time.Sleep(1 * time.Second)
		cur := progress.Load()
		if cur == last {
			stuck++
		} else {
			last, stuck = cur, 0
		}
		if stuck >= 20 && cur > 0 {
			tr.Emit(vh.M{"op": "hang", "sc": int(cur), "lt": ""})
			tr.Close()
			fmt.Printf("{\"scenarios\":%d,\"events\":%d,\"hang\":true}\n", cur, tr.N)
			os.Exit(3)
		}
	}
}

func main() {
	in := flag.String("scenarios", "", "lines exported by TLC from FlowGen.tla (EPAIR/FPAIR/BADEP/BADFL <json>)")
	out := flag.String("trace", "trace.ndjson", "trace output")
	nrand := flag.Int("rand", 0, "seeded random pairs beyond the model's bound")
	seed := flag.Uint64("seed", 1, "seed")
	useCorpus := flag.Bool("corpus", false, "observe the flows of decoded corpus packets")
	nmut := flag.Int("mut", 0, "mutations per corpus packet")
	naddr := flag.Int("addr", 0, "copies per corpus packet with the address fields rewritten to special values")
	flag.Parse()
	d := &driver{tr: vh.NewTrace(*out), seenEP: map[string]bool{}, seenFL: map[string]bool{}, seenLy: map[string]bool{},
		stats: map[string]int{}, ltypes: map[string]int{}, conv: map[string][]conv{}, nconv: map[string]int{}}
	go watchdog(d.tr)
	nmodel := 0
	if *in != "" {
		f, err := os.Open(*in)
		if err != nil {
			vh.Fatal(err)
		}
		rd := bufio.NewScanner(f)
		rd.Buffer(make([]byte, 1<<20), 1<<24)
		for rd.Scan() {
			if len(rd.Bytes()) == 0 {
				continue
			}
			d.sc++
			nmodel++
			progress.Store(int64(d.sc))
			d.replayLine(rd.Text(), nmodel)
		}
	}
	// vh.Rand streams of nearby seeds are the same sequence shifted by (seed difference) draws and quickly
	// fall into step; spread the seeds far apart along the sequence
	r := vh.NewRand((*seed+0xC17)*0xD6E8FEB86659FD93 ^ 0x5851F42D4C957F2D)
	d.random(r, *nrand)
	npk := 0
	if *useCorpus {
		d.collect = true
		for _, fx := range specials() {
			d.sc++
			npk++
			progress.Store(int64(d.sc))
			d.guard("packet", func() { d.packet(fx.Name, fx.Data, fx.First) })
		}
		d.collect = false
		for _, fx := range append(synth(), corpus.Load()...) {
			d.sc++
			npk++
			progress.Store(int64(d.sc))
			d.guard("packet", func() { d.packet(fx.Name, fx.Data, fx.First) })
			for m := 0; m < *naddr; m++ {
				nd := rewritten(r, fx.Data, fx.First)
				if nd == nil {
					break
				}
				d.sc++
				npk++
				progress.Store(int64(d.sc))
				d.guard("packet", func() { d.packet(fx.Name+"~addr", nd, fx.First) })
			}
			for m := 0; m < *nmut; m++ {
				var md []byte
				var how string
				if m%2 == 0 {
					md, how = corpus.Mutate(r, fx.Data)
				} else {
					md, how = corpus.LayerAware(r, fx)
				}
				if md == nil {
					continue
				}
				d.sc++
				npk++
				progress.Store(int64(d.sc))
				d.guard("packet", func() { d.packet(fx.Name+"~"+how, md, fx.First) })
			}
		}
	}
	d.conversations()
	d.tr.Close()
	res := vh.M{"scenarios": d.sc, "events": d.tr.N, "model_scenarios": nmodel, "random": *nrand, "packets": npk,
		"stats": d.stats, "layer_types": d.ltypes}
	b, _ := json.Marshal(res)
	fmt.Println(string(b))
}
