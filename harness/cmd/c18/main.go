// c18: replays serialize-buffer operation sequences (exported by TLC from
// SerializeBuffer.tla, or generated randomly beyond the model's bound) on the
// real gopacket.SerializeBuffer and records what the buffer actually holds
// after every step.  The trace is validated by TLC (SerializeBufferTrace.tla).
package main

import (
	"bufio"
	"encoding/json"
	"flag"
	"fmt"
	"os"
	"unsafe"

	"github.com/gopacket/gopacket"
	"verif/harness/vh"
)

type fakeLayer struct {
	t, pre, app int
	st          *state
	res         *[]int // rlen of the prepend/append
}

func (f *fakeLayer) LayerType() gopacket.LayerType { return gopacket.LayerType(f.t) }
func (f *fakeLayer) SerializeTo(b gopacket.SerializeBuffer, _ gopacket.SerializeOptions) error {
	w, err := b.PrependBytes(f.pre)
	if err != nil {
		return err
	}
	*f.res = append(*f.res, len(w))
	f.st.fill(w)
	f.st.wins = append(f.st.wins, w)
	f.st.cleared = append(f.st.cleared, false)
	w, err = b.AppendBytes(f.app)
	if err != nil {
		return err
	}
	*f.res = append(*f.res, len(w))
	f.st.fill(w)
	f.st.wins = append(f.st.wins, w)
	f.st.cleared = append(f.st.cleared, false)
	return nil
}

type state struct {
	buf     gopacket.SerializeBuffer
	next    int
	wins    [][]byte
	cleared []bool
}

func (s *state) fill(w []byte) {
	for i := range w {
		w[i] = byte(s.next%251 + 1)
		s.next++
	}
}

// validWindow: the window memory lies inside the memory of the current Bytes().
func (s *state) validWindow(i int) bool {
	if i < 0 || i >= len(s.wins) || s.cleared[i] || len(s.wins[i]) == 0 {
		return false
	}
	b := s.buf.Bytes()
	if len(b) == 0 {
		return false
	}
	b0 := uintptr(unsafe.Pointer(&b[0]))
	w0 := uintptr(unsafe.Pointer(&s.wins[i][0]))
	return w0 >= b0 && w0+uintptr(len(s.wins[i])) <= b0+uintptr(len(b))
}

func layerInts(ls []gopacket.LayerType) []int {
	r := make([]int, len(ls))
	for i, l := range ls {
		r[i] = int(l)
	}
	return r
}

func (s *state) obs(ev vh.M) vh.M {
	ev["bytes"] = vh.Ints(s.buf.Bytes())
	ev["layers"] = layerInts(s.buf.Layers())
	return ev
}

var drift int

// step executes one op; returns the event (nil if skipped)
func (s *state) step(op []interface{}) vh.M {
	name := op[0].(string)
	num := func(i int) int { return int(op[i].(float64)) }
	switch name {
	case "prepend":
		w, err := s.buf.PrependBytes(num(1))
		if err != nil {
			return vh.M{"op": "prepend", "n": num(1), "rlen": -1, "bytes": []int{}, "layers": []int{}}
		}
		s.fill(w)
		s.wins = append(s.wins, w)
		s.cleared = append(s.cleared, false)
		return s.obs(vh.M{"op": "prepend", "n": num(1), "rlen": len(w)})
	case "append":
		w, err := s.buf.AppendBytes(num(1))
		if err != nil {
			return vh.M{"op": "append", "n": num(1), "rlen": -1, "bytes": []int{}, "layers": []int{}}
		}
		s.fill(w)
		s.wins = append(s.wins, w)
		s.cleared = append(s.cleared, false)
		return s.obs(vh.M{"op": "append", "n": num(1), "rlen": len(w)})
	case "clear":
		s.buf.Clear()
		for i := range s.cleared {
			s.cleared[i] = true
		}
		return s.obs(vh.M{"op": "clear"})
	case "push":
		s.buf.PushLayer(gopacket.LayerType(num(1)))
		return s.obs(vh.M{"op": "push", "t": num(1)})
	case "wwrite_any": // random driver: pick among the windows that are really still valid
		var valid []int
		for i := range s.wins {
			if s.validWindow(i) {
				valid = append(valid, i)
			}
		}
		if len(valid) == 0 {
			return nil
		}
		w := valid[num(1)%len(valid)]
		s.fill(s.wins[w])
		return s.obs(vh.M{"op": "wwrite", "w": w + 1})
	case "wwrite":
		w := num(1) - 1
		if !s.validWindow(w) {
			drift++ // the model thought the window still valid; the real buffer reallocated: not a property matter
			return nil
		}
		s.fill(s.wins[w])
		return s.obs(vh.M{"op": "wwrite", "w": w + 1})
	case "serlayers":
		raw := op[1].([]interface{})
		var ls []gopacket.SerializableLayer
		var lsj [][]int
		var res []int
		for _, r := range raw {
			a := r.([]interface{})
			fl := &fakeLayer{t: int(a[0].(float64)), pre: int(a[1].(float64)), app: int(a[2].(float64)), st: s, res: &res}
			ls = append(ls, fl)
			lsj = append(lsj, []int{fl.t, fl.pre, fl.app})
		}
		for i := range s.cleared {
			s.cleared[i] = true
		}
		err := gopacket.SerializeLayers(s.buf, gopacket.SerializeOptions{}, ls...)
		// windows created inside SerializeTo are tracked by the fake layers, two per layer, innermost
		// first, which is the order in which the model (PStack) records them
		ev := s.obs(vh.M{"op": "serlayers", "ls": lsj, "rlens": res})
		if err != nil {
			ev["err"] = err.Error()
		}
		return ev
	}
	vh.Fatal("unknown op", name)
	return nil
}

func runScenario(tr *vh.Trace, sc int, ops [][]interface{}) {
	first := ops[0]
	hp, ha := int(first[1].(float64)), int(first[2].(float64))
	s := &state{}
	if hp == 0 && ha == 0 && sc%2 == 0 {
		s.buf = gopacket.NewSerializeBuffer()
	} else {
		s.buf = gopacket.NewSerializeBufferExpectedSize(hp, ha)
	}
	tr.Emit(vh.M{"op": "reset", "sc": sc, "hp": hp, "ha": ha})
	for _, op := range ops[1:] {
		var ev vh.M
		msg, site, p := vh.Guard(func() { ev = s.step(op) })
		if p {
			tr.Emit(vh.M{"op": "panic", "sc": sc, "msg": msg, "site": site, "n": 0, "rlen": -2, "bytes": []int{}, "layers": []int{}})
			return
		}
		if ev != nil {
			ev["sc"] = sc
			tr.Emit(ev)
		}
	}
}

func randomScenario(r *vh.Rand, depth, maxSize int) [][]interface{} {
	hints := [][2]int{{0, 0}, {1, 0}, {0, 7}, {64, 64}, {r.Intn(maxSize), r.Intn(maxSize)}}
	h := hints[r.Intn(len(hints))]
	ops := [][]interface{}{{"new", float64(h[0]), float64(h[1])}}
	nwin := 0
	size := func() float64 {
		switch r.Intn(4) {
		case 0:
			return float64(r.Intn(4))
		case 1:
			return float64(r.Intn(40))
		default:
			return float64(r.Intn(maxSize))
		}
	}
	for i := 0; i < depth; i++ {
		switch r.Intn(12) {
		case 0, 1, 2:
			ops = append(ops, []interface{}{"prepend", size()})
			nwin++
		case 3, 4, 5:
			ops = append(ops, []interface{}{"append", size()})
			nwin++
		case 6:
			if r.Intn(4) == 0 {
				ops = append(ops, []interface{}{"clear"})
			}
		case 7:
			ops = append(ops, []interface{}{"push", float64(r.Intn(2000))})
		case 8, 9, 10:
			if nwin > 0 {
				ops = append(ops, []interface{}{"wwrite_any", float64(r.Intn(1 << 20))})
			}
		case 11:
			if r.Intn(3) == 0 {
				n := 1 + r.Intn(4)
				var ls []interface{}
				for j := 0; j < n; j++ {
					ls = append(ls, []interface{}{float64(r.Intn(100)), size(), float64(r.Intn(3))})
				}
				ops = append(ops, []interface{}{"serlayers", ls})
				nwin += 2 * n
			}
		}
	}
	return ops
}

func main() {
	in := flag.String("scenarios", "", "ndjson file of TLC-exported behaviours")
	out := flag.String("trace", "trace.ndjson", "output trace")
	nrand := flag.Int("rand", 0, "number of random scenarios")
	depth := flag.Int("depth", 60, "ops per random scenario")
	maxSize := flag.Int("maxsize", 200, "max size of random prepend/append")
	seed := flag.Uint64("seed", 1, "seed")
	flag.Parse()
	tr := vh.NewTrace(*out)
	sc := 0
	if *in != "" {
		f, err := os.Open(*in)
		if err != nil {
			vh.Fatal(err)
		}
		rd := bufio.NewScanner(f)
		rd.Buffer(make([]byte, 1<<20), 1<<24)
		for rd.Scan() {
			var ops [][]interface{}
			if err := json.Unmarshal(rd.Bytes(), &ops); err != nil {
				vh.Fatal("bad scenario:", err)
			}
			sc++
			runScenario(tr, sc, ops)
		}
		f.Close()
	}
	r := vh.NewRand(*seed)
	for i := 0; i < *nrand; i++ {
		sc++
		runScenario(tr, sc, randomScenario(r, *depth, *maxSize))
	}
	tr.Close()
	fmt.Printf("{\"scenarios\":%d,\"events\":%d,\"drift\":%d}\n", sc, tr.N, drift)
}
