// tcpasm: replays assembler scenarios on the real gopacket/tcpassembly Assembler and records, in
// stream offsets, what each Stream was handed.  Validated by TLC against Reasm.tla.  C10, C11.
package main

import (
	"bufio"
	"flag"
	"fmt"
	"os"
	"sync/atomic"
	"time"

	"github.com/gopacket/gopacket"
	"github.com/gopacket/gopacket/layers"
	"github.com/gopacket/gopacket/tcpassembly"
	"verif/harness/asmc"
	"verif/harness/vh"
)

type harness struct {
	tr      *vh.Trace
	sc      int
	cfg     asmc.Cfg
	units   int
	content map[[2]int]*asmc.Content
	pool    *tcpassembly.StreamPool
	asm     *tcpassembly.Assembler
	pending vh.M
}

// in tcpassembly every direction is a connection of its own: model connection id = 2*c+d, direction 0
type stream struct {
	h    *harness
	c, d int
}

func (h *harness) flushPending() {
	if h.pending != nil {
		h.tr.Emit(h.pending)
		h.pending = nil
	}
}

func (h *harness) isn(c, d int) uint32 {
	v := h.cfg.ISN + uint32(c)*0x01000193
	if d == 1 {
		v ^= 0x5a5a5a5a
	}
	if c == 1 && d == 0 {
		v = h.cfg.ISN
	}
	return v
}

func (h *harness) cont(c, d int) *asmc.Content {
	k := [2]int{c, d}
	if h.content[k] == nil {
		h.content[k] = asmc.NewContent(h.units*h.cfg.Scale, uint64(c*2+d))
	}
	return h.content[k]
}

func (h *harness) New(netFlow, tcpFlow gopacket.Flow) tcpassembly.Stream {
	src, dst := tcpFlow.Endpoints()
	sp := int(src.Raw()[0])<<8 | int(src.Raw()[1])
	dp := int(dst.Raw()[0])<<8 | int(dst.Raw()[1])
	c, d := sp-1000, 0
	if sp == 80 {
		c, d = dp-1000, 1
	}
	h.tr.Emit(vh.M{"op": "new", "sc": h.sc, "c": 2*c + d})
	h.flushPending()
	return &stream{h: h, c: c, d: d}
}

func (s *stream) Reassembled(rs []tcpassembly.Reassembly) {
	h := s.h
	h.flushPending()
	ct := h.cont(s.c, s.d)
	for _, r := range rs {
		h.tr.Emit(vh.M{"op": "sg", "sc": h.sc, "c": 2*s.c + s.d, "d": 0, "srun": [][2]int{}, "nrun": ct.Runs(r.Bytes),
			"skip": r.Skip, "start": r.Start, "end": r.End, "keep": -1, "total": len(r.Bytes)})
	}
}

func (s *stream) ReassemblyComplete() {
	s.h.flushPending()
	s.h.tr.Emit(vh.M{"op": "complete", "sc": s.h.sc, "c": 2*s.c + s.d, "remove": true})
}

func ts(i int) time.Time { return time.Unix(int64(1000+i), 0) }

func (h *harness) api(call string, t int, pktpages int) {
	maxq := 0
	oldest := -1
	for _, st := range h.pool.VerifConns() {
		if st.Queued > maxq {
			maxq = st.Queued
		}
		if !st.HeadSeen.IsZero() {
			v := int(st.HeadSeen.Unix() - 1000)
			if oldest < 0 || v < oldest {
				oldest = v
			}
		}
	}
	h.tr.Emit(vh.M{"op": "api", "sc": h.sc, "call": call, "t": t, "pages": h.asm.VerifPagesUsed(),
		"conns": h.pool.VerifConnCount(), "maxq": maxq, "oldest": oldest, "pktpages": pktpages})
}

func (h *harness) run(ops []asmc.Op) {
	h.tr.Emit(vh.M{"op": "cfg", "sc": h.sc, "asm": "tcpassembly", "limit": h.cfg.Limit, "keep": -1, "force": false,
		"scale": h.cfg.Scale, "isn": int64(h.cfg.ISN), "remove": true})
	h.pool = tcpassembly.NewStreamPool(h)
	h.asm = tcpassembly.NewAssembler(h.pool)
	h.asm.MaxBufferedPagesPerConnection = h.cfg.Limit
	S := h.cfg.Scale
	for i, op := range ops {
		t := i + 1
		switch op.Kind {
		case "seg":
			ct := h.cont(op.C, op.D)
			tcp := &layers.TCP{SrcPort: layers.TCPPort(1000 + op.C), DstPort: 80, SYN: op.Syn, FIN: op.Fin, RST: op.Rst, ACK: !op.Syn}
			nf, _ := gopacket.FlowFromEndpoints(layers.NewIPEndpoint([]byte{1, 2, 3, byte(op.C)}), layers.NewIPEndpoint([]byte{5, 6, 7, 8}))
			if op.D == 1 {
				tcp.SrcPort, tcp.DstPort = tcp.DstPort, tcp.SrcPort
				nf = nf.Reverse()
			}
			tcp.SetInternalPortsForTesting()
			isn := h.isn(op.C, op.D)
			lo, hi := op.Lo*S, op.Hi*S
			if op.Syn {
				tcp.Seq = isn
				lo, hi = 0, 0
			} else {
				tcp.Seq = isn + 1 + uint32(lo)
				tcp.Payload = ct.B[lo:hi]
				tcp.BaseLayer.Payload = tcp.Payload
			}
			h.pending = vh.M{"op": "seg", "sc": h.sc, "c": 2*op.C + op.D, "d": 0, "lo": lo, "hi": hi, "syn": op.Syn, "fin": op.Fin,
				"rst": op.Rst, "force": false, "ts": t}
			h.asm.AssembleWithTimestamp(nf, tcp, ts(t))
			h.flushPending()
			h.api("assemble", 0, (hi-lo+1899)/1900)
		case "flushall":
			h.tr.Emit(vh.M{"op": "flushb", "sc": h.sc, "kind": "all", "t": 0})
			h.asm.FlushAll()
			h.tr.Emit(vh.M{"op": "flushe", "sc": h.sc, "kind": "all", "t": 0})
			h.api("flushall", 0, 0)
		case "flusholder":
			h.tr.Emit(vh.M{"op": "flushb", "sc": h.sc, "kind": "older", "t": op.T})
			h.asm.FlushOlderThan(ts(op.T))
			h.tr.Emit(vh.M{"op": "flushe", "sc": h.sc, "kind": "older", "t": op.T})
			h.api("flusholder", op.T, 0)
		}
	}
}

var progress atomic.Int64

// watchdog: a scenario of a few dozen operations that does not finish in 15 s is a hang of the library
func watchdog(tr *vh.Trace) {
	last, stuck := int64(-1), 0
	for {
		time.Sleep(1 * time.Second)
		cur := progress.Load()
		if cur == last {
			stuck++
		} else {
			last, stuck = cur, 0
		}
		if stuck >= 15 && cur > 0 {
			tr.Emit(vh.M{"op": "hang", "sc": int(cur)})
			tr.Close()
			fmt.Printf("{\"scenarios\":%d,\"events\":%d,\"hang\":true}\n", cur, tr.N)
			os.Exit(3)
		}
	}
}

func runScenario(tr *vh.Trace, sc int, ops []asmc.Op, cfg asmc.Cfg, units int) {
	progress.Store(int64(sc))
	h := &harness{tr: tr, sc: sc, cfg: cfg, units: units, content: map[[2]int]*asmc.Content{}}
	msg, site, p := vh.Guard(func() { h.run(ops) })
	if p {
		if len(msg) > 100 {
			msg = msg[:100]
		}
		tr.Emit(vh.M{"op": "panic", "sc": sc, "msg": msg, "site": site})
	}
}

func main() {
	in := flag.String("scenarios", "", "ndjson of TLC-exported behaviours")
	out := flag.String("trace", "trace.ndjson", "trace output")
	units := flag.Int("units", 3, "stream length in model units (TLC scenarios)")
	nrand := flag.Int("rand", 0, "random scenarios")
	seed := flag.Uint64("seed", 1, "seed")
	variants := flag.Int("variants", 2, "configurations per exported behaviour")
	flag.Parse()
	tr := vh.NewTrace(*out)
	go watchdog(tr)
	sc := 0
	if *in != "" {
		f, err := os.Open(*in)
		if err != nil {
			vh.Fatal(err)
		}
		rd := bufio.NewScanner(f)
		rd.Buffer(make([]byte, 1<<20), 1<<24)
		n := 0
		for rd.Scan() {
			ops, err := asmc.ParseTLC(rd.Bytes())
			if err != nil {
				vh.Fatal("bad scenario", err)
			}
			n++
			for v := 0; v < *variants; v++ {
				sc++
				runScenario(tr, sc, ops, asmc.CfgFor(n*7+v, *seed, *units), *units)
			}
		}
	}
	r := vh.NewRand(*seed)
	for i := 0; i < *nrand; i++ {
		sc++
		u := 4 + r.Intn(12)
		ops := asmc.RandomScenario(r, u, 1+r.Intn(3), 4+r.Intn(24))
		runScenario(tr, sc, ops, asmc.CfgFor(1000000+i, *seed, u), u)
	}
	tr.Close()
	fmt.Printf("{\"scenarios\":%d,\"events\":%d}\n", sc, tr.N)
}
