// psrc: replays PacketSource behaviours (source script + harness-visible schedule exported by TLC from
// PacketSource.tla) on the real gopacket.PacketSource.  The harness owns the data source (every read is
// gated and logged) and the consumer (receive pacing, cancel).  Validated by TLC (PacketSourceTrace.tla).  C16.
package main

import (
	"bufio"
	"bytes"
	"context"
	"encoding/binary"
	"encoding/json"
	"errors"
	"flag"
	"fmt"
	"io"
	"os"
	"sync"
	"time"

	"github.com/gopacket/gopacket"
	"github.com/gopacket/gopacket/layers"
	"verif/harness/vh"
)

type scen struct {
	Src []string        `json:"src"`
	Ops [][]interface{} `json:"ops"`
}

type timeoutErr struct{}

func (timeoutErr) Error() string   { return "harness timeout" }
func (timeoutErr) Timeout() bool   { return true }
func (timeoutErr) Temporary() bool { return true }

var errTemp = errors.New("harness temporary error")

// source: a gated data source.  Each ReadPacketData announces itself on req and waits for the
// driver's answer.  reuse=true makes it a buffer-reusing (zero-copy style) source.
type source struct {
	emit  func(vh.M)
	req   chan int
	ans   chan string
	n     int
	ids   int
	buf   []byte
	reuse bool
	mu    sync.Mutex
	cis   map[int]gopacket.CaptureInfo
	datas map[int][]byte
}

func pktBytes(id int) []byte {
	// Ethernet + IPv4 + UDP with the id in the payload; odd ids are captured short (caplen < len)
	eth := &layers.Ethernet{SrcMAC: []byte{1, 2, 3, 4, 5, 6}, DstMAC: []byte{6, 5, 4, 3, 2, 1}, EthernetType: layers.EthernetTypeIPv4}
	ip := &layers.IPv4{Version: 4, IHL: 5, TTL: 64, Protocol: layers.IPProtocolUDP, SrcIP: []byte{10, 0, 0, 1}, DstIP: []byte{10, 0, 0, 2}}
	udp := &layers.UDP{SrcPort: 40000, DstPort: 40001}
	udp.SetNetworkLayerForChecksum(ip)
	n := 16
	if id%3 == 0 {
		n = 1600 + id%7 // larger than the packet pool's block
	}
	pl := make([]byte, n)
	for i := 16; i < n; i++ {
		pl[i] = byte(i*7 + id)
	}
	binary.BigEndian.PutUint64(pl, uint64(id))
	binary.BigEndian.PutUint64(pl[8:], uint64(id)*0x9e3779b97f4a7c15)
	b := gopacket.NewSerializeBuffer()
	gopacket.SerializeLayers(b, gopacket.SerializeOptions{FixLengths: true, ComputeChecksums: true}, eth, ip, udp, gopacket.Payload(pl))
	return append([]byte(nil), b.Bytes()...)
}

func (s *source) read() ([]byte, gopacket.CaptureInfo, error) {
	s.mu.Lock()
	s.n++
	i := s.n
	s.mu.Unlock()
	s.emit(vh.M{"op": "rstart", "i": i})
	s.req <- i
	kind := <-s.ans
	switch kind {
	case "pkt":
		s.mu.Lock()
		s.ids++
		id := s.ids
		s.mu.Unlock()
		d := pktBytes(id)
		ci := gopacket.CaptureInfo{Timestamp: time.Unix(int64(1000+id), int64(id)), CaptureLength: len(d), Length: len(d), InterfaceIndex: id}
		if id%2 == 1 {
			ci.Length = len(d) + 7 // more on the wire than captured
		}
		if s.reuse {
			if s.buf == nil {
				s.buf = make([]byte, 4096)
			}
			copy(s.buf, d)
			d = s.buf[:len(d)]
		}
		s.mu.Lock()
		s.cis[id] = ci
		s.datas[id] = append([]byte(nil), d...)
		s.mu.Unlock()
		s.emit(vh.M{"op": "rend", "i": i, "kind": "pkt", "id": id})
		return d, ci, nil
	case "timeout":
		s.emit(vh.M{"op": "rend", "i": i, "kind": "timeout", "id": 0})
		return nil, gopacket.CaptureInfo{}, timeoutErr{}
	case "temp":
		s.emit(vh.M{"op": "rend", "i": i, "kind": "temp", "id": 0})
		return nil, gopacket.CaptureInfo{}, errTemp
	default:
		s.emit(vh.M{"op": "rend", "i": i, "kind": "eof", "id": 0})
		errs := []error{io.EOF, io.ErrUnexpectedEOF, io.ErrClosedPipe, fmt.Errorf("wrapped: %w", io.EOF)}
		return nil, gopacket.CaptureInfo{}, errs[i%len(errs)]
	}
}

func (s *source) ReadPacketData() ([]byte, gopacket.CaptureInfo, error)         { return s.read() }
func (s *source) ZeroCopyReadPacketData() ([]byte, gopacket.CaptureInfo, error) { return s.read() }

type zsource struct{ s *source }

func (z zsource) ZeroCopyReadPacketData() ([]byte, gopacket.CaptureInfo, error) { return z.s.read() }

func idOf(p gopacket.Packet) int {
	d := p.Data()
	if len(d) >= 50 { // Ethernet 14 + IPv4 20 + UDP 8
		return int(binary.BigEndian.Uint64(d[42:50]))
	}
	return -1
}

func metaOK(s *source, p gopacket.Packet, id int) (bool, string) {
	s.mu.Lock()
	ci, ok := s.cis[id]
	want := s.datas[id]
	s.mu.Unlock()
	if !ok {
		return false, "unknown id"
	}
	m := p.Metadata()
	if !m.CaptureInfo.Timestamp.Equal(ci.Timestamp) || m.CaptureLength != ci.CaptureLength || m.Length != ci.Length || m.InterfaceIndex != ci.InterfaceIndex {
		return false, "captureinfo"
	}
	if m.Truncated != (ci.CaptureLength < ci.Length) {
		return false, "truncated flag"
	}
	if !bytes.Equal(p.Data(), want) {
		return false, "data"
	}
	if p.ErrorLayer() != nil {
		return false, "decode error"
	}
	return true, ""
}

type variant struct {
	zero, nocopy, lazy, concat, pool bool
}

func runChan(tr *vh.Trace, sc int, s scen, v variant) {
	var mu sync.Mutex
	var evs []vh.M
	emit := func(m vh.M) { mu.Lock(); m["sc"] = sc; evs = append(evs, m); mu.Unlock() }
	defer func() { mu.Lock(); tr.EmitBlock(evs); mu.Unlock() }()
	emit(vh.M{"op": "reset", "mode": "chan", "zerocopy": v.zero, "nocopy": v.nocopy, "lazy": v.lazy, "concat": v.concat, "pool": v.pool})
	src := &source{emit: emit, req: make(chan int), ans: make(chan string), reuse: v.zero, cis: map[int]gopacket.CaptureInfo{}, datas: map[int][]byte{}}
	opts := []gopacket.PacketSourceOption{gopacket.WithNoCopy(v.nocopy), gopacket.WithLazy(v.lazy), gopacket.WithPool(v.pool)}
	var ps *gopacket.PacketSource
	if v.zero {
		ps = gopacket.NewZeroCopyPacketSource(zsource{src}, layers.LayerTypeEthernet, opts...)
	} else if v.concat {
		ps = gopacket.NewPacketSource(gopacket.ConcatFinitePacketDataSources(src), layers.LayerTypeEthernet, opts...)
	} else {
		ps = gopacket.NewPacketSource(src, layers.LayerTypeEthernet, opts...)
	}
	ctx, cancel := context.WithCancel(context.Background())
	defer cancel()
	var ch chan gopacket.Packet
	refused := false
	func() {
		defer func() {
			if r := recover(); r != nil {
				refused = true
				emit(vh.M{"op": "refused", "msg": fmt.Sprint(r)[:40]})
			}
		}()
		ch = ps.PacketsCtx(ctx)
	}()
	if refused {
		emit(vh.M{"op": "end"})
		return
	}
	type got struct {
		p  gopacket.Packet
		id int
	}
	var gots []got
	recv := func(d time.Duration) string {
		select {
		case p, ok := <-ch:
			if !ok {
				emit(vh.M{"op": "rclosed"})
				return "closed"
			}
			id := idOf(p)
			ok2, why := metaOK(src, p, id)
			emit(vh.M{"op": "recv", "id": id, "meta": ok2, "why": why})
			gots = append(gots, got{p, id})
			return "pkt"
		case <-time.After(d):
			emit(vh.M{"op": "rempty"})
			return "empty"
		}
	}
	answer := func(kind string, d time.Duration) bool {
		select {
		case <-src.req:
			src.ans <- kind
			return true
		case <-time.After(d):
			return false
		}
	}
	closed := false
	for _, op := range s.Ops {
		switch op[0].(string) {
		case "read":
			answer(op[1].(string), 150*time.Millisecond)
		case "recv":
			if !closed && recv(150*time.Millisecond) == "closed" {
				closed = true
			}
		case "cancel":
			emit(vh.M{"op": "cancel"})
			cancel()
		}
	}
	// wind down: let the producer reach the end of input, drain until the channel closes
	deadline := time.Now().Add(2 * time.Second)
	for !closed && time.Now().Before(deadline) {
		answer("eof", 20*time.Millisecond)
		if recv(20*time.Millisecond) == "closed" {
			closed = true
		}
	}
	// delivered packets must not have been altered by later reads
	okAll := true
	for _, g := range gots {
		if ok, _ := metaOK(src, g.p, g.id); !ok {
			okAll = false
		}
	}
	emit(vh.M{"op": "intact", "ok": okAll})
	emit(vh.M{"op": "end"})
}

func runPull(tr *vh.Trace, sc int, s scen, v variant) {
	var evs []vh.M
	emit := func(m vh.M) { m["sc"] = sc; evs = append(evs, m) }
	defer func() { tr.EmitBlock(evs) }()
	emit(vh.M{"op": "reset", "mode": "pull", "zerocopy": v.zero, "nocopy": v.nocopy, "lazy": v.lazy, "concat": v.concat})
	quiet := func(vh.M) {}
	src := &source{emit: quiet, req: make(chan int, 1), ans: make(chan string, 1), reuse: v.zero, cis: map[int]gopacket.CaptureInfo{}, datas: map[int][]byte{}}
	var ps *gopacket.PacketSource
	opts := []gopacket.PacketSourceOption{gopacket.WithNoCopy(v.nocopy), gopacket.WithLazy(v.lazy)}
	if v.zero {
		ps = gopacket.NewZeroCopyPacketSource(zsource{src}, layers.LayerTypeEthernet, opts...)
	} else {
		ps = gopacket.NewPacketSource(src, layers.LayerTypeEthernet, opts...)
	}
	for i, kind := range append(append([]string{}, s.Src...), "eof") {
		src.ans <- kind
		p, err := ps.NextPacket()
		<-src.req
		got := "pkt"
		meta := true
		why := ""
		if err != nil {
			var te interface{ Timeout() bool }
			switch {
			case errors.As(err, &te) && te.Timeout():
				got = "timeout"
			case errors.Is(err, errTemp):
				got = "temp"
			default:
				got = "eof"
			}
			if p != nil {
				meta, why = false, "packet returned together with an error"
			}
		} else {
			meta, why = metaOK(src, p, idOf(p))
		}
		emit(vh.M{"op": "pull", "i": i + 1, "want": kind, "got": got, "meta": meta, "why": why})
	}
	emit(vh.M{"op": "end"})
}

// capacity scenario: more packets than the channel holds, stalled consumer, cancel while the producer is blocked
func runCapacity(tr *vh.Trace, sc int) {
	var mu sync.Mutex
	emit := func(m vh.M) { mu.Lock(); m["sc"] = sc; tr.Emit(m); mu.Unlock() }
	emit(vh.M{"op": "reset", "mode": "chan", "zerocopy": false, "nocopy": false, "lazy": false, "concat": false})
	src := &source{emit: emit, req: make(chan int), ans: make(chan string), cis: map[int]gopacket.CaptureInfo{}, datas: map[int][]byte{}}
	ps := gopacket.NewPacketSource(src, layers.LayerTypeEthernet)
	ctx, cancel := context.WithCancel(context.Background())
	ch := ps.PacketsCtx(ctx)
	n := 0
	for {
		select {
		case <-src.req:
			src.ans <- "pkt"
			n++
			continue
		case <-time.After(300 * time.Millisecond):
		}
		break // the producer stopped asking: it is blocked on the full channel
	}
	emit(vh.M{"op": "cancel"})
	cancel()
	go func() { // should a further read start, answer it
		for range src.req {
			src.ans <- "eof"
		}
	}()
	dl := time.After(3 * time.Second)
loop:
	for {
		select {
		case p, ok := <-ch:
			if !ok {
				emit(vh.M{"op": "rclosed"})
				break loop
			}
			id := idOf(p)
			ok2, why := metaOK(src, p, id)
			emit(vh.M{"op": "recv", "id": id, "meta": ok2, "why": why})
		case <-dl:
			break loop
		}
	}
	emit(vh.M{"op": "intact", "ok": true})
	emit(vh.M{"op": "end", "produced": n})
}

func main() {
	in := flag.String("scenarios", "", "ndjson of TLC-exported behaviours")
	out := flag.String("trace", "trace.ndjson", "trace output")
	par := flag.Int("par", 16, "scenarios run concurrently")
	flag.Parse()
	tr := vh.NewTrace(*out)
	f, err := os.Open(*in)
	if err != nil {
		vh.Fatal(err)
	}
	rd := bufio.NewScanner(f)
	rd.Buffer(make([]byte, 1<<20), 1<<24)
	var scs []scen
	for rd.Scan() {
		var s scen
		if err := json.Unmarshal(rd.Bytes(), &s); err != nil {
			vh.Fatal("bad scenario", err)
		}
		scs = append(scs, s)
	}
	variants := []variant{{}, {lazy: true}, {zero: true}, {nocopy: true}, {concat: true}, {zero: true, nocopy: true},
		{zero: true, pool: true}, {pool: true, lazy: true}}
	sem := make(chan struct{}, *par)
	var wg sync.WaitGroup
	sc := 0
	for i, s := range scs {
		v := variants[i%len(variants)]
		sc++
		wg.Add(1)
		sem <- struct{}{}
		go func(sc int, s scen, v variant) {
			defer wg.Done()
			defer func() { <-sem }()
			defer func() {
				if r := recover(); r != nil {
					tr.Emit(vh.M{"op": "panic", "sc": sc, "msg": fmt.Sprint(r)})
				}
			}()
			runChan(tr, sc, s, v)
		}(sc, s, v)
		if i%7 == 0 {
			sc++
			runPull(tr, sc, s, variants[(i/7)%4])
		}
	}
	wg.Wait()
	sc++
	runCapacity(tr, sc)
	tr.Close()
	fmt.Printf("{\"scenarios\":%d,\"events\":%d}\n", sc, tr.N)
}
