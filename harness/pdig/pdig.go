// Package pdig renders decoded packets and accessor results to opaque digests (C02, C04).  Digests are
// compared for equality only (by the TLA+ monitor Pure.tla); they never decide anything themselves.
// The rendering is canonical and does not use the library's own String methods: exported fields by
// reflection (vh.Digest), layer contents and payload bytes, error text WITHOUT the stack, truncated flag,
// and which layers the five pointer accessors name.
package pdig

import (
	"fmt"
	"hash/fnv"
	"reflect"

	"github.com/gopacket/gopacket"
	"github.com/gopacket/gopacket/layers"
	"verif/harness/vh"
)

type H struct {
	h interface {
		Write([]byte) (int, error)
		Sum64() uint64
	}
}

func New() *H               { return &H{h: fnv.New64a()} }
func (h *H) S(s string) *H  { h.h.Write([]byte(s)); h.h.Write([]byte{0}); return h }
func (h *H) B(b []byte) *H  { h.h.Write([]byte(fmt.Sprintf("%d:", len(b)))); h.h.Write(b); return h }
func (h *H) I(i int) *H     { return h.S(fmt.Sprintf("%d", i)) }
func (h *H) Sum() string    { return fmt.Sprintf("%016x", h.h.Sum64()) }
func Str(s string) string   { return New().S(s).Sum() }
func Bytes(b []byte) string { return New().B(b).Sum() }

func isNil(x interface{}) bool {
	if x == nil {
		return true
	}
	v := reflect.ValueOf(x)
	switch v.Kind() {
	case reflect.Ptr, reflect.Interface, reflect.Slice, reflect.Map:
		return v.IsNil()
	}
	return false
}

// Layer renders one layer.
func Layer(h *H, l gopacket.Layer) {
	if isNil(l) {
		h.S("nil-layer")
		return
	}
	h.S(l.LayerType().String())
	if f, ok := l.(*gopacket.DecodeFailure); ok {
		if e := f.Error(); e != nil {
			h.S(e.Error())
		}
	} else {
		h.S(vh.Digest(l))
	}
	h.B(l.LayerContents())
	h.B(l.LayerPayload())
}

func indexOf(ls []gopacket.Layer, x interface{}) int {
	if isNil(x) {
		return -1
	}
	xl, ok := x.(gopacket.Layer)
	if !ok {
		return -2
	}
	for i, l := range ls {
		if l == xl {
			return i
		}
	}
	return -3
}

// Packet renders the whole decoded packet (forces all layers of a lazy packet).
func Packet(p gopacket.Packet) string {
	h := New()
	ls := p.Layers()
	h.I(len(ls))
	for _, l := range ls {
		Layer(h, l)
	}
	h.S(fmt.Sprint(p.Metadata().Truncated))
	h.I(indexOf(ls, p.LinkLayer())).I(indexOf(ls, p.NetworkLayer())).I(indexOf(ls, p.TransportLayer()))
	h.I(indexOf(ls, p.ApplicationLayer())).I(indexOf(ls, p.ErrorLayer()))
	h.B(p.Data())
	return h.Sum()
}

// NumLayers is used for coverage statistics only.
func NumLayers(p gopacket.Packet) int { return len(p.Layers()) }

// SetNet links the network layer into every layer that needs it for its checksum (a one-time, sequential
// preparation step: decoders never do this themselves).
func SetNet(p gopacket.Packet) {
	var net gopacket.NetworkLayer
	for _, l := range p.Layers() {
		if n, ok := l.(gopacket.NetworkLayer); ok {
			switch n.(type) {
			case *layers.IPv4, *layers.IPv6:
				net = n
			}
			continue
		}
		if s, ok := l.(interface {
			SetNetworkLayerForChecksum(gopacket.NetworkLayer) error
		}); ok && net != nil {
			s.SetNetworkLayerForChecksum(net)
		}
	}
}

// Accessors of a shared eager packet, by the names used in PureGen.tla.
var Accessors = []string{"Layers", "Layer", "String", "Dump", "LayerString", "LayerDump", "Flows", "Verify", "Data"}

var classes = []gopacket.LayerClass{layers.LayerClassIPNetwork, layers.LayerClassIPTransport, layers.LayerClassIPControl}
var extraTypes = []gopacket.LayerType{gopacket.LayerTypeDecodeFailure, gopacket.LayerTypePayload, layers.LayerTypeTCP, layers.LayerTypeIPv6}

// Read performs one accessor (group) on p and renders the result.
func Read(p gopacket.Packet, acc string) string {
	h := New().S(acc)
	switch acc {
	case "Layers":
		return Packet(p)
	case "Layer":
		ls := p.Layers()
		for _, l := range ls {
			h.I(indexOf(ls, p.Layer(l.LayerType())))
		}
		for _, t := range extraTypes {
			h.I(indexOf(ls, p.Layer(t)))
		}
		for _, c := range classes {
			h.I(indexOf(ls, p.LayerClass(c)))
		}
		h.I(indexOf(ls, p.LinkLayer())).I(indexOf(ls, p.NetworkLayer())).I(indexOf(ls, p.TransportLayer()))
		h.I(indexOf(ls, p.ApplicationLayer())).I(indexOf(ls, p.ErrorLayer()))
	case "String":
		h.S(p.String())
	case "Dump":
		h.S(p.Dump())
	case "LayerString":
		for _, l := range p.Layers() {
			h.S(gopacket.LayerString(l))
		}
	case "LayerDump":
		for _, l := range p.Layers() {
			h.S(gopacket.LayerDump(l))
		}
	case "Flows":
		if l := p.LinkLayer(); !isNil(l) {
			f := l.LinkFlow()
			h.S(f.String()).S(fmt.Sprint(f.FastHash()))
		}
		if l := p.NetworkLayer(); !isNil(l) {
			f := l.NetworkFlow()
			h.S(f.String()).S(fmt.Sprint(f.FastHash()))
		}
		if l := p.TransportLayer(); !isNil(l) {
			f := l.TransportFlow()
			h.S(f.String()).S(fmt.Sprint(f.FastHash()))
		}
		if l := p.ApplicationLayer(); !isNil(l) {
			h.B(l.Payload())
		}
	case "Verify":
		err, mm := p.VerifyChecksums()
		if err != nil {
			h.S("err:" + err.Error())
		}
		ls := p.Layers()
		for _, m := range mm {
			h.I(m.LayerIndex).I(indexOf(ls, m.Layer)).S(fmt.Sprintf("%v/%d/%d", m.Valid, m.Correct, m.Actual))
		}
	case "Data":
		h.B(p.Data())
		md := p.Metadata()
		h.S(fmt.Sprintf("%v/%d/%d/%d", md.Truncated, md.CaptureLength, md.Length, md.InterfaceIndex))
	case "All":
		return New().S(Packet(p)).S(Read(p, "Layer")).S(Read(p, "Flows")).S(Read(p, "Data")).Sum()
	default:
		h.S("unknown-accessor")
	}
	return h.Sum()
}
