// Package sched is a cooperative scheduler for replaying a chosen interleaving on real goroutines.
// Library code calls Yield (through the verifYield hooks) at the points where it is about to take a
// lock it does not hold; a registered goroutine parks there until the controller steps it.  Yields
// never sit inside critical sections, so a parked goroutine holds no lock and a stepped goroutine
// always reaches its next yield (or its end) unless the library really blocks.
package sched

import (
	"bytes"
	"runtime"
	"strconv"
	"sync"
	"sync/atomic"
	"time"
)

var jitter atomic.Uint64

type thread struct {
	idx    int
	resume chan struct{}
	parked chan string // sends the yield point name each time the thread parks; closed when it ends
	done   bool
	at     string
}

type Controller struct {
	mu      sync.Mutex
	byGID   map[int64]*thread
	threads []*thread
	free    bool // free-run: yields return at once
}

func New() *Controller { return &Controller{byGID: map[int64]*thread{}} }

func gid() int64 {
	var buf [64]byte
	n := runtime.Stack(buf[:], false)
	b := buf[:n]
	b = bytes.TrimPrefix(b, []byte("goroutine "))
	i := bytes.IndexByte(b, ' ')
	id, _ := strconv.ParseInt(string(b[:i]), 10, 64)
	return id
}

// Go starts body as thread idx; the thread parks immediately (point "start").
func (c *Controller) Go(idx int, body func()) {
	t := &thread{idx: idx, resume: make(chan struct{}), parked: make(chan string, 1)}
	c.mu.Lock()
	for len(c.threads) <= idx {
		c.threads = append(c.threads, nil)
	}
	c.threads[idx] = t
	c.mu.Unlock()
	ready := make(chan struct{})
	go func() {
		c.mu.Lock()
		c.byGID[gid()] = t
		c.mu.Unlock()
		close(ready)
		c.Yield("start")
		body()
		c.mu.Lock()
		t.done = true
		c.mu.Unlock()
		close(t.parked)
	}()
	<-ready
	<-t.parked // wait until it is parked at "start"
}

// ThreadIndex returns the index of the calling registered thread, or -1.
func (c *Controller) ThreadIndex() int {
	c.mu.Lock()
	t := c.byGID[gid()]
	c.mu.Unlock()
	if t == nil {
		return -1
	}
	return t.idx
}

// Yield parks the calling goroutine if it is a registered thread and the controller is not free-running.
func (c *Controller) Yield(point string) {
	c.mu.Lock()
	t := c.byGID[gid()]
	free := c.free
	c.mu.Unlock()
	if t == nil || free {
		if free {
			// free-running (race-detector) phase: widen the windows between "decided to take the lock" and
			// "took it" - an access moved out of its critical section then meets the other thread's
			switch n := jitter.Add(0x9E3779B97F4A7C15) >> 33; n % 4 {
			case 0:
				runtime.Gosched()
			case 1:
				time.Sleep(time.Duration(n%97) * time.Microsecond)
			case 2:
				time.Sleep(time.Duration(n%997) * time.Microsecond)
			}
		}
		return
	}
	t.at = point
	t.parked <- point
	<-t.resume
}

// Step lets thread idx run one segment.  Returns the point where it parked again, "end" if it
// finished, "gone" if it had already finished, "stuck" if it neither parked nor ended in time.
func (c *Controller) Step(idx int, timeout time.Duration) string {
	c.mu.Lock()
	var t *thread
	if idx < len(c.threads) {
		t = c.threads[idx]
	}
	done := t == nil || t.done
	c.mu.Unlock()
	if done {
		return "gone"
	}
	t.resume <- struct{}{}
	select {
	case p, ok := <-t.parked:
		if !ok {
			return "end"
		}
		return p
	case <-time.After(timeout):
		return "stuck"
	}
}

// FreeRun releases every parked thread and makes further yields no-ops; waits for all threads to end.
// Returns false if some thread did not end in time.
func (c *Controller) FreeRun(timeout time.Duration) bool {
	c.mu.Lock()
	c.free = true
	ts := append([]*thread(nil), c.threads...)
	c.mu.Unlock()
	deadline := time.After(timeout)
	for _, t := range ts {
		if t == nil {
			continue
		}
		c.mu.Lock()
		d := t.done
		c.mu.Unlock()
		if d {
			continue
		}
		// release it if it is parked (a thread that is running will see c.free at its next yield)
		select {
		case t.resume <- struct{}{}:
		case <-time.After(100 * time.Millisecond):
		}
	}
	for _, t := range ts {
		if t == nil {
			continue
		}
		for {
			select {
			case _, ok := <-t.parked:
				if !ok {
					goto next
				}
				// it parked just before free-running was switched on: release it
				select {
				case t.resume <- struct{}{}:
				case <-deadline:
					return false
				}
			case <-deadline:
				return false
			}
		}
	next:
	}
	return true
}
