module verif/harness

go 1.25.0

require (
	github.com/gopacket/gopacket v0.0.0
	pgregory.net/rapid v1.3.0
)

require (
	golang.org/x/net v0.55.0 // indirect
	golang.org/x/sys v0.45.0 // indirect
)

replace github.com/gopacket/gopacket => /tmp/seedwt-8322
